"""C11: reflective structural comparison of two module trees of the real mypy (a freshly analysed
`MypyFile` and/or trees read back by the repository's own readers and fixed up by the repository's
own fixer).

Nothing in here knows which fields the serializers list: attributes are enumerated reflectively
(`__slots__` over the MRO plus `__dict__`), so a field a codec forgets shows up as a difference.
Cross references (TypeInfo / alias / function reached through a type or an `info` attribute) are
compared by (class, fullname); symbol nodes are descended exactly once, at the symbol table entry
that defines them.  The only things that are *not* compared between a live tree and a reload are the
attributes in PROJECTION below, each with its reason; between the two reloads (JSON vs binary)
nothing is excluded.
"""

from __future__ import annotations

import enum
from typing import Any

# --------------------------------------------------------------------------------------------
# Projection: attributes that are not part of what an importing module can observe through the
# cache, so a freshly analysed tree and its reload legitimately differ there.  Calibrated on the
# unchanged tree; every entry carries its reason and is copied into the evidence file.
# Key "Class.attr"; "*.attr" applies to every class.
# --------------------------------------------------------------------------------------------
PROJECTION: dict[str, str] = {
    # source positions: only TypeAlias / TypeVar-like expressions / overload impl carry a line through the cache
    "*.line": "source position, not serialized (diagnostics about a cached module are replayed from meta_ex, not recomputed)",
    "*.column": "source position",
    "*.end_line": "source position",
    "*.end_column": "source position",
    # MypyFile: everything but names/is_stub/path/is_partial_stub_package/future_import_flags is the AST or build bookkeeping
    "MypyFile.defs": "module body (AST), a cached module has none by design (is_cache_skeleton)",
    "MypyFile.imports": "AST import nodes; dependencies travel in the meta record",
    "MypyFile.is_cache_skeleton": "says 'loaded from cache' - differs by definition",
    "MypyFile.alias_deps": "fine-grained dependency bookkeeping, stored in the deps cache not in the data file",
    "MypyFile.module_refs": "indirect-dependency bookkeeping, stored in meta_ex",
    "MypyFile.plugin_deps": "fine-grained dependency bookkeeping",
    "MypyFile.ignored_lines": "consulted only while checking the module's own body",
    "MypyFile.skipped_lines": "consulted only while checking the module's own body",
    "MypyFile.is_bom": "parser detail of the source text",
    "MypyFile.uses_template_strings": "parser detail used to add an implicit dependency while parsing",
    "MypyFile.raw_data": "native-parser payload of the source",
    # function bodies and analysis-time bookkeeping
    "FuncDef.arguments": "argument AST (deliberately dropped: arg_names/arg_kinds/type carry the signature; attribute is deleted on load)",
    "FuncDef.body": "function body (AST)",
    "FuncDef.min_args": "derived from arguments; deleted on load so that a use would fail loudly",
    "FuncDef.max_pos": "derived from arguments; deleted on load so that a use would fail loudly",
    "FuncDef.type_args": "unanalyzed PEP 695 parameter AST; analysed form is in type.variables",
    "FuncDef.unanalyzed_type": "pre-semanal annotation, used only to re-analyse the body",
    "FuncDef.expanded": "per-body expansion for value-restricted type variables (checker-internal)",
    "FuncDef.original_def": "link between conditional redefinitions, used while checking the defining body",
    "FuncDef.is_invalid_redefinition": "error-dedup bookkeeping while checking the defining body",
    "FuncDef.docstring": "kept only for stubgen/--include-docstrings on source files",
    "FuncDef.def_or_infer_vars": "semanal bookkeeping for the defining body",
    "FuncDef.is_explicit_override": "@override is verified when the defining class body is checked",
    "OverloadedFuncDef.unanalyzed_items": "pre-semanal copies of the items (AST)",
    "OverloadedFuncDef.unanalyzed_type": "pre-semanal annotation",
    "OverloadedFuncDef.def_or_infer_vars": "semanal bookkeeping for the defining body",
    "OverloadedFuncDef.is_explicit_override": "@override is verified when the defining class body is checked",
    "Decorator.original_decorators": "decorator expressions (AST) kept for re-analysis of the defining body",
    "Decorator.decorators": "decorator expressions (AST); the decorated signature is var.type",
    "Var.is_argument": "set on parameters, which live in function scope and are never exported",
    # class bodies
    "ClassDef.defs": "class body (AST)",
    "ClassDef.type_args": "unanalyzed PEP 695 parameter AST; analysed form is type_vars",
    "ClassDef.base_type_exprs": "base class expressions (AST); analysed form is TypeInfo.bases",
    "ClassDef.removed_base_type_exprs": "base class expressions (AST)",
    "ClassDef.info": "back reference, restored lazily (CLASSDEF_NO_INFO on load); importers go through the TypeInfo",
    "ClassDef.metaclass": "metaclass expression (AST); analysed form is TypeInfo.declared_metaclass",
    "ClassDef.decorators": "decorator expressions (AST)",
    "ClassDef.keywords": "class keyword expressions (AST)",
    "ClassDef.analyzed": "special-form expression (AST) for NamedTuple/TypedDict classes",
    "ClassDef.has_incompatible_baseclass": "error-dedup bookkeeping for the defining body",
    "ClassDef.docstring": "kept only for stubgen",
    "ClassDef.removed_statements": "AST kept for error reporting in the defining module",
    "TypeInfo.is_type_check_only": "@type_check_only marker, read only by stubtest, which always builds with incremental=False",
    "FuncDef.is_type_check_only": "@type_check_only marker, read only by stubtest, which always builds with incremental=False",
    "OverloadedFuncDef.is_type_check_only": "@type_check_only marker, read only by stubtest (incremental=False)",
    "UnpackType.from_star_syntax": "spelling of the annotation (*Ts vs Unpack[Ts]); read only by typeanal on unanalysed annotations",
    "TypeInfo.bad_mro": "set by semanal when MRO linearisation fails; no reader anywhere in mypy/ (the fallback MRO itself is serialized)",
    "TypeVarExpr.default_depends": "semanal bookkeeping for recursive PEP 696 defaults of the defining module",
    "ParamSpecExpr.default_depends": "semanal bookkeeping for recursive PEP 696 defaults of the defining module",
    "TypeVarTupleExpr.default_depends": "semanal bookkeeping for recursive PEP 696 defaults of the defining module",
    "TypeAlias.default_depends": "semanal bookkeeping for recursive PEP 696 defaults of the defining module",
    "TypeInfo.assuming": "transient subtype-check stack",
    "TypeInfo.assuming_proper": "transient subtype-check stack",
    "TypeInfo.inferring": "transient protocol-inference stack",
    "TypeInfo._mro_refs": "load-time scratch (names of the MRO before fixup)",
    "TypeInfo.default_depends": "fine-grained dependency bookkeeping for PEP 696 defaults",
    "TypeInfo.typeddict_data": "per-definition TypedDict source data used while analysing the defining body",
}

# Memo slots: excluded in every pairing (also JSON vs binary).  For the two truthiness slots the
# *effective* value (the `can_be_true` / `can_be_false` properties) is compared instead.
CACHES: dict[str, str] = {
    "*._can_be_true": "memo slot (-1 = unset); the effective value Type.can_be_true is compared instead",
    "*._can_be_false": "memo slot (-1 = unset); the effective value Type.can_be_false is compared instead",
    "*._hash": "hash memo",
    "TypeAlias._is_recursive": "memo of is_recursive (None = not computed yet)",
    "OverloadedFuncDef._is_trivial_self": "memo of is_trivial_self",
    "MypyFile._is_typeshed_file": "memo derived from path",
    "TypeInfo.type_object_type": "memo of type_object_type(), recomputed on demand",
}

# Positions stored on *types* are excluded in every pairing: they only give error context while the defining
# module is checked, and the binary reader hands out one shared Instance object per common builtin class
# (types.instance_cache), whose position is whatever its last user set.
TYPE_POSITIONS = "line/column/end_line/end_column of Type objects: error context only; shared instances in the binary reader"
_POS = frozenset(["line", "column", "end_line", "end_column"])

# attributes through which a symbol node *contains* another symbol node (descend); every other
# symbol-node-valued attribute is a cross reference compared by (class, fullname)
CONTAIN = {"Decorator.func", "Decorator.var", "OverloadedFuncDef.items", "OverloadedFuncDef.impl",
           "TypeInfo.special_alias"}

UNSET = "<unset>"
_PRIM = (str, int, float, bool, bytes, complex, type(None))


_PRIMSET = frozenset(_PRIM)


def _slot_attrs(k: type) -> list[str]:
    names: list[str] = []
    seen = set()
    for c in k.__mro__:
        sl = c.__dict__.get("__slots__", ())
        if isinstance(sl, str):
            sl = (sl,)
        for s in sl:
            if s not in seen and s not in ("__dict__", "__weakref__"):
                seen.add(s)
                names.append(s)
    return names


def _attrs(o: Any) -> list[str]:
    names: list[str] = []
    seen = set()
    for k in type(o).__mro__:
        sl = k.__dict__.get("__slots__", ())
        if isinstance(sl, str):
            sl = (sl,)
        for s in sl:
            if s not in seen and s not in ("__dict__", "__weakref__"):
                seen.add(s)
                names.append(s)
    d = getattr(o, "__dict__", None)
    if d:
        for s in d:
            if s not in seen:
                seen.add(s)
                names.append(s)
    return names


class Differ:
    """Compares tree `a` with tree `b`; `projected` says whether PROJECTION applies."""

    def __init__(self, projected: bool, modules: dict[str, Any], was_xref: set[int] | None = None,
                 max_diffs: int = 60) -> None:
        import mypy.nodes as N
        import mypy.types as T
        self.N, self.T = N, T
        self.projected = projected
        self.modules = modules
        self.was_xref: set[int] = was_xref if was_xref is not None else set()
        self.by_key: dict[str, dict[str, Any]] = {}     # "Class.attr|what" -> {"n", "items": first few}
        self.ndiffs = 0
        self.max_diffs = max_diffs
        self.cells: dict[str, int] = {}
        self.symbols = 0          # symbol table entries compared whose node is not a bare module reference
        self.defined = 0          # ... of which descended (defined here)
        self.stack: list[int] = []
        self.cur_info: list[str] = []
        self.plans: dict[type, list[tuple[str, str, int]]] = {}
        self.symtypes = (N.SymbolNode, N.FuncBase)
        self.type_names = {k.__name__ for k in vars(T).values() if isinstance(k, type) and issubclass(k, T.Type)} | {"ExtraAttrs"}
        self.flag_tables = {
            "Var": list(N.VAR_FLAGS), "FuncDef": list(N.FUNCDEF_FLAGS),
            "OverloadedFuncDef": list(N.FUNCBASE_FLAGS), "TypeInfo": list(N.TypeInfo.FLAGS),
        }

    # ---- bookkeeping ----
    def cell(self, name: str, n: int = 1) -> None:
        self.cells[name] = self.cells.get(name, 0) + n

    def report(self, where: str, path: str, a: Any, b: Any, what: str = "value") -> None:
        self.ndiffs += 1
        ent = self.by_key.setdefault(f"{where}|{what}", {"n": 0, "items": []})
        ent["n"] += 1
        if len(ent["items"]) < 3:
            ent["items"].append({"where": where, "what": what, "path": path, "a": _short(a), "b": _short(b)})

    @property
    def diffs(self) -> list[dict[str, Any]]:
        return [it for ent in self.by_key.values() for it in ent["items"]]

    def skip(self, cls: str, attr: str) -> bool:
        if f"{cls}.{attr}" in CACHES or f"*.{attr}" in CACHES:
            return True
        if attr in _POS and cls in self.type_names:
            return True   # TYPE_POSITIONS
        if not self.projected:
            return False
        return f"{cls}.{attr}" in PROJECTION or f"*.{attr}" in PROJECTION

    # ---- references ----
    def ref_of(self, o: Any, where: str = "") -> Any:
        N = self.N
        if o is None:
            return None
        if isinstance(o, N.FakeInfo):
            return ("FakeInfo",)
        try:
            fn = o.fullname
        except Exception as e:  # pragma: no cover
            fn = f"<fullname raises {type(e).__name__}>"
        cls = type(o).__name__
        if where == "CallableType.definition" and cls == "Decorator":
            # every reader of CallableType.definition (nodes.get_func_def, checker.is_node_static/
            # is_classmethod_node/is_property, warn_deprecated) looks through a Decorator to its func;
            # the fixer links the FuncDef, the analyser the Decorator
            cls = "FuncDef"
        return (cls, fn)

    def is_symnode(self, o: Any) -> bool:
        N = self.N
        return isinstance(o, (N.SymbolNode, N.FuncBase))

    # ---- main recursion ----
    def diff(self, a: Any, b: Any, path: str, where: str) -> None:
        if a is b:
            return
        N, T = self.N, self.T
        if a is UNSET or b is UNSET:
            if a is not b:
                self.report(where, path, a, b, "attribute unset on one side")
            return
        if isinstance(a, _PRIM) or isinstance(b, _PRIM):
            if type(a) is not type(b):
                self.report(where, path, a, b, "python type")
            elif a != b and not (isinstance(a, float) and repr(a) == repr(b)):
                self.report(where, path, a, b)
            return
        if isinstance(a, enum.Enum) or isinstance(b, enum.Enum):
            if a is not b:
                self.report(where, path, a, b)
            return
        if type(a) is not type(b):
            # list vs tuple etc. is a real difference for `==` on the consumer side
            self.report(where, path, type(a).__name__, type(b).__name__, "class")
            return
        if isinstance(a, (list, tuple)):
            if len(a) != len(b):
                self.report(where, path, f"len {len(a)}: {_short(a)}", f"len {len(b)}: {_short(b)}", "length")
                return
            for i, (x, y) in enumerate(zip(a, b)):
                self.diff(x, y, f"{path}[{i}]", where)
            return
        if isinstance(a, N.SymbolTable):
            self.diff_symtab(a, b, path)
            return
        if isinstance(a, (set, frozenset)):
            ka = sorted((self.key_of(x) for x in a), key=repr)
            kb = sorted((self.key_of(x) for x in b), key=repr)
            if ka != kb:
                self.report(where, path, ka, kb, "set")
            return
        if isinstance(a, dict):
            if where in ("TypeInfo.metadata", "ExtraAttrs.attrs"):
                # TypeInfo.metadata: a JSON object by declaration (dict[str, JsonDict]); ExtraAttrs.attrs: attribute name ->
                # type, only ever looked up by key (ExtraAttrs.__eq__ is dict equality).  Key order is not part of the value;
                # both codecs sort the keys.
                if sorted(a, key=repr) != sorted(b, key=repr):
                    self.report(where, path, sorted(a, key=repr), sorted(b, key=repr), "dict keys")
                for k in a:
                    if k in b:
                        self.diff(a[k], b[k], f"{path}[{k!r}]", where)
                return
            if list(a) != list(b):
                if sorted(a, key=repr) != sorted(b, key=repr):
                    self.report(where, path, sorted(a, key=repr), sorted(b, key=repr), "dict keys")
                    return
                # same keys, different order: iteration order is observable (e.g. TypedDict items)
                self.report(where, path, list(a), list(b), "dict order")
            for k in a:
                if k in b:
                    self.diff(a[k], b[k], f"{path}[{k!r}]", where)
            return
        if isinstance(a, N.SymbolTableNode):
            self.diff_stn(a, b, path, None, None)
            return
        if id(a) in self.stack:
            return
        self.stack.append(id(a))
        is_info = isinstance(a, N.TypeInfo)
        if is_info:
            self.cur_info.append(a.fullname)
        try:
            self.diff_obj(a, b, path)
        finally:
            self.stack.pop()
            if is_info:
                self.cur_info.pop()

    def key_of(self, x: Any) -> Any:
        if isinstance(x, _PRIM):
            return x
        if self.is_symnode(x):
            return self.ref_of(x)
        if isinstance(x, (tuple, list)):
            return tuple(self.key_of(y) for y in x)
        return repr(x)

    def plan_for(self, k: type) -> list[tuple[str, str, int]]:
        """[(attr, "Class.attr", mode)] for a class: mode 0 = compare, 1 = containment; projected-out attrs dropped."""
        pl = self.plans.get(k)
        if pl is None:
            cls = k.__name__
            pl = []
            for attr in _slot_attrs(k):
                if self.skip(cls, attr):
                    continue
                where = f"{cls}.{attr}"
                pl.append((attr, where, 1 if where in CONTAIN else 0))
            self.plans[k] = pl
        return pl

    def diff_obj(self, a: Any, b: Any, path: str) -> None:
        N, T = self.N, self.T
        k = type(a)
        cls = k.__name__
        if isinstance(a, T.Type):
            self.cell("type:" + cls)
            try:
                ta, tb, fa, fb = a.can_be_true, b.can_be_true, a.can_be_false, b.can_be_false
            except Exception:
                ta = tb = fa = fb = None
            if ta != tb:
                self.report("Type.can_be_true", path + ".can_be_true", ta, tb, "effective truthiness")
            if fa != fb:
                self.report("Type.can_be_false", path + ".can_be_false", fa, fb, "effective truthiness")
        elif isinstance(a, N.Node) and not self.is_symnode(a) and not isinstance(a, N.ClassDef):
            return  # AST (statement / expression): same class on both sides is all that is compared
        plan = self.plan_for(k)
        da, db = getattr(a, "__dict__", None), getattr(b, "__dict__", None)
        if da or db:
            known = {p[0] for p in plan}
            plan = list(plan)
            for extra in [*(da or ()), *(db or ())]:
                if extra not in known and not self.skip(cls, extra):
                    known.add(extra)
                    plan.append((extra, f"{cls}.{extra}", 0))
        symtypes = self.symtypes
        for attr, where, mode in plan:
            x = getattr(a, attr, UNSET)
            y = getattr(b, attr, UNSET)
            if x is y:
                continue
            tx = type(x)
            if tx in _PRIMSET and tx is type(y):
                if x != y and not (tx is float and repr(x) == repr(y)):
                    self.report(where, f"{path}.{attr}", x, y)
                continue
            p = f"{path}.{attr}"
            if mode == 1:
                self.diff_contained(x, y, p, where)
            elif isinstance(x, symtypes) or isinstance(y, symtypes):
                rx = self.ref_of(x, where) if x is not UNSET else UNSET
                ry = self.ref_of(y, where) if y is not UNSET else UNSET
                self.cell("xref:" + where)
                if rx != ry:
                    if self.projected and where in ("Var.info", "FuncDef.info") and rx == ("FakeInfo",) \
                            and ry is not UNSET and ry is not None and ry[0] == "TypeInfo" and self.cur_info \
                            and ry[1] == self.cur_info[-1]:
                        # NORMALISATION (documented): the fixer stamps the enclosing class on every component of a
                        # member (nodes.set_info); the analyser leaves e.g. the Var of a Decorator inside an overload
                        # without it.  Only this direction (absent -> enclosing class) is accepted.
                        self.cell("norm:" + where + ":set-by-fixup")
                    else:
                        what = "cross reference changed"
                        if ry is None or ry == ("FakeInfo",):
                            what = "cross reference lost"
                        elif rx is None or rx == ("FakeInfo",):
                            what = "cross reference appears"
                        elif isinstance(rx, tuple) and isinstance(ry, tuple) and rx[0] != ry[0]:
                            what = f"cross reference class {rx[0]}->{ry[0]}"
                        elif where.endswith(".info") and self.cur_info and isinstance(ry, tuple) and len(ry) > 1 \
                                and ry[1] == self.cur_info[-1]:
                            what = "cross reference reset to the enclosing class by fixup"
                        self.report(where, p, rx, ry, what)
            elif tx in (list, tuple) and x and isinstance(x[0], symtypes) and type(y) in (list, tuple) \
                    and all(isinstance(e, symtypes) for e in x) and all(isinstance(e, symtypes) for e in y):
                rx2, ry2 = [self.ref_of(e) for e in x], [self.ref_of(e) for e in y]
                self.cell("xref:" + where)
                if rx2 != ry2 or tx is not type(y):
                    self.report(where, p, rx2, ry2, "cross reference list")
            else:
                self.diff(x, y, p, where)
        if isinstance(a, symtypes):
            self.note_node(a)

    def diff_contained(self, x: Any, y: Any, p: str, where: str) -> None:
        if isinstance(x, (list, tuple)) and isinstance(y, (list, tuple)):
            if len(x) != len(y) or type(x) is not type(y):
                self.report(where, p, [self.ref_of(e) for e in x], [self.ref_of(e) for e in y], "length")
                return
            for i, (e, f) in enumerate(zip(x, y)):
                self.diff_contained(e, f, f"{p}[{i}]", where)
            return
        if x is None or y is None or x is UNSET or y is UNSET:
            if where == "TypeInfo.special_alias" and self.projected and x is None and y is not None and y is not UNSET:
                # NORMALISATION (documented): the fixer calls update_tuple_type()/update_typeddict_type(), which create the
                # alias as a pure function of tuple_type/typeddict_type; synthesized classes (intersections) lack it when fresh
                self.cell("norm:TypeInfo.special_alias:created-by-fixup")
                return
            if x is not y:
                self.report(where, p, self.ref_of(x) if x not in (None, UNSET) else x,
                            self.ref_of(y) if y not in (None, UNSET) else y, "presence")
            return
        if type(x) is not type(y):
            self.report(where, p, type(x).__name__, type(y).__name__, "class")
            return
        self.diff(x, y, p, where)

    def note_node(self, n: Any) -> None:
        cls = type(n).__name__
        tab = self.flag_tables.get(cls)
        if tab is not None:
            on = [f for f in tab if getattr(n, f, False)]
            self.cell(f"node:{cls}|" + ("+".join(on) if on else "-"))
        else:
            self.cell(f"node:{cls}")

    # ---- symbol tables ----
    def diff_symtab(self, a: Any, b: Any, path: str) -> None:
        def keys(t: Any) -> list[str]:
            # the two documented exclusions of SymbolTable.serialize/write
            return sorted(k for k, v in t.items() if k != "__builtins__" and not v.no_serialize)
        ka, kb = keys(a), keys(b)
        if ka != kb:
            self.report("SymbolTable.keys", path, sorted(set(ka) - set(kb)), sorted(set(kb) - set(ka)), "names only on one side")
        if not self.projected and list(a) != list(b) and sorted(a) == sorted(b):
            self.report("SymbolTable.order", path, list(a)[:8], list(b)[:8], "dict order")
        for k in ka:
            if k in b:
                self.diff_stn(a[k], b[k], f"{path}[{k!r}]", None, k)

    def diff_stn(self, a: Any, b: Any, path: str, prefix: str | None, name: str | None) -> None:
        N = self.N
        xa = a.cross_ref is not None or id(a) in self.was_xref
        xb = b.cross_ref is not None or id(b) in self.was_xref
        na, nb = a.node, b.node          # forces the lazy load + fixup of the real code
        for attr in ("kind", "module_public", "module_hidden", "implicit", "plugin_generated", "no_serialize"):
            x, y = getattr(a, attr), getattr(b, attr)
            if x != y or type(x) is not type(y):
                self.report(f"SymbolTableNode.{attr}", f"{path}.{attr}", x, y)
        self.cell("symkind:" + str(N.node_kinds.get(a.kind, a.kind)))
        if isinstance(na, N.MypyFile) or isinstance(nb, N.MypyFile):
            self.cell("sym:module-ref")
            if self.ref_of(na) != self.ref_of(nb):
                self.report("SymbolTableNode.node", path + ".node", self.ref_of(na), self.ref_of(nb), "module reference")
            return
        self.symbols += 1
        if na is None or nb is None:
            if na is not nb:
                self.report("SymbolTableNode.node", path + ".node", self.ref_of(na), self.ref_of(nb), "presence")
            return
        if not self.projected and xa != xb:
            self.report("SymbolTableNode.cross_ref", path, xa, xb, "stored inline by one codec, by name by the other")
        if xa or xb:
            # stored by name: compare what the name resolves to
            self.cell("sym:cross-ref")
            if self.ref_of(na) != self.ref_of(nb):
                self.report("SymbolTableNode.node", path + ".node", self.ref_of(na), self.ref_of(nb), "cross reference")
            elif type(na) is type(nb) and isinstance(na, (N.Var, N.FuncDef, N.Decorator, N.OverloadedFuncDef)) and na is not nb:
                # same fullname but possibly another object (e.g. "x-redefinition" is stored as a reference to "x"):
                # the type an importer gets through this name must be the same
                ta, tb = getattr(a, "type", None), getattr(b, "type", None)
                sub = Differ(self.projected, self.modules, self.was_xref)
                sub.plans = self.plans
                sub.diff(ta, tb, path + ".node<by-name>.type", "type")
                if sub.ndiffs:
                    first = sub.diffs[0]
                    redef = "-redefinition" in (name or "")
                    self.report("SymbolTableNode.cross_ref", path,
                                f"{self.ref_of(na)} with {first['where']} = {first['a']}",
                                f"{self.ref_of(nb)} with {first['where']} = {first['b']}",
                                "redefinition symbol re-links to the first definition" if redef
                                else "name re-links to a definition with a different type")
            return
        self.defined += 1
        self.cell("sym:defined")
        if type(na) is not type(nb):
            self.report("SymbolTableNode.node", path + ".node", type(na).__name__, type(nb).__name__, "class")
            return
        self.diff(na, nb, path + ".node", "SymbolTableNode.node")


def _short(x: Any) -> Any:
    if isinstance(x, (str, int, float, bool, type(None))):
        return x if not isinstance(x, str) or len(x) < 300 else x[:300] + "..."
    r = repr(x)
    return r if len(r) < 300 else r[:300] + "..."


def mark_cross_refs(tree: Any) -> set[int]:
    """ids of the SymbolTableNodes of a freshly read tree that are stored by name (before fixup clears
    `cross_ref`).  Does not touch `.node`, so nothing is loaded or fixed up."""
    import mypy.nodes as N
    out: set[int] = set()
    todo = [tree.names]
    while todo:
        tab = todo.pop()
        for v in tab.values():
            if v.cross_ref is not None:
                out.add(id(v))
            elif isinstance(v._node, N.TypeInfo):
                todo.append(v._node.names)
    return out


def force(tree: Any) -> int:
    """Touch every symbol of a reloaded tree the way an importer would (`.node`), so that the lazy
    reader and the fixer of the real code have run on everything.  Returns the number of symbols."""
    import mypy.nodes as N
    n = 0
    seen: set[int] = set()
    todo = [tree.names]
    while todo:
        tab = todo.pop()
        if id(tab) in seen:
            continue
        seen.add(id(tab))
        for v in tab.values():
            had_xref = v.cross_ref is not None
            node = v.node
            n += 1
            if not had_xref and isinstance(node, N.TypeInfo):
                todo.append(node.names)
    return n
