chk("C20", "exploration",
    "Crash/timeout oracle over ~4k (quick) / ~100k (thorough) structure-aware mutants of the check-* corpus run through the real mypy with the real typeshed, plus mutant edit sequences handed to an in-process dmypy Server followed by a full-run comparison of the restored program. Held = no internal error, traceback, bad exit status, malformed message or hang on what was explored.",
    "Trusted: CPython, ast_serialize. Universal quantifier over inputs is sampled. Hang = 120 s watchdog, re-run alone before it counts. Known crashes are listed by mechanism key (exception class @ innermost mypy function).",
    "crash/timeout oracle + report_internal_error hook over mutated corpus; daemon post-crash equivalence")
chk("C03", "exploration",
    "Every daemon response (real dmypy_server.Server driven in-process through check/recheck/recheck --update --remove) over generated edit histories is compared with a full batch run on the same files; first difference per history is a violation keyed by (edit-operator class, direction, error codes).",
    "Oracle = batch mypy on a typeshed-only base cache. Logical clock for source mtimes. Socket layer not exercised here (C16). Histories are sampled; daemon defects already present in the tree are listed by mechanism key.",
    "differential monitor: daemon response vs full run after every edit of generated histories")
