#!/venv/bin/python
"""C18 finding: inside a namespace package (parent directory without __init__), a directory `ns/mod/` that
has no __init__ (even an empty one) wins over the module file `ns/mod.py` in FindModuleCache._find_module,
although the same directory loses against the module at top level, loses when `ns/__init__.py` exists,
and loses in CPython's import system. `mypy ns/mod.py` under --explicit-package-bases names the file
`ns.mod`; `import ns.mod` / `mypy -m ns.mod` resolve to the directory instead.

key: m-vs-file:resolves-elsewhere:same-name-directory-without-init-instead-of-module
mechanism: when verify_module() fails (no ns/__init__), candidates become "near misses"; the namespace
directory is appended to near_misses before the module file of the same base directory, and with equal
init levels the first near miss wins.

exit 1 = defect present, 0 = absent. Honours VERIF_REPO."""
import os
import shutil
import subprocess
import sys
import tempfile

REPO = os.environ.get("VERIF_REPO", "/repo")
PY = "/venv/bin/python"


def mypy(args, cwd):
    env = dict(os.environ, PYTHONPATH=REPO if REPO != "/repo" else "", PYTHONDONTWRITEBYTECODE="1")
    env.pop("MYPYPATH", None)
    p = subprocess.run([PY, "-m", "mypy", "--no-error-summary", "--cache-dir", os.path.join(cwd, ".cache"), *args],
                       cwd=cwd, env=env, capture_output=True, text=True, timeout=600)
    return p.returncode, sorted(ln for ln in (p.stdout + p.stderr).splitlines() if ln.strip())


def main():
    d = tempfile.mkdtemp(prefix="c18-find-", dir="/var/tmp")
    try:
        os.makedirs(os.path.join(d, "ns", "mod"))  # e.g. a stale directory left behind (only __pycache__ in it)
        with open(os.path.join(d, "ns", "mod.py"), "w") as f:
            f.write("def f() -> int:\n    return 1\n")
        with open(os.path.join(d, "main.py"), "w") as f:
            f.write("from ns.mod import f\nreveal_type(f)\n")
        py = subprocess.run([PY, "-c", "from ns.mod import f; print(f())"], cwd=d, capture_output=True, text=True)
        print("CPython: from ns.mod import f; f() ->", py.stdout.strip() or py.stderr.strip()[-200:])
        a = mypy(["main.py"], d)
        print("mypy main.py ->", a)
        bad = any('has no attribute "f"' in ln for ln in a[1]) or not any("def () -> builtins.int" in ln or "def () -> int" in ln for ln in a[1])
        open(os.path.join(d, "ns", "__init__.py"), "w").close()
        b = mypy(["main.py"], d)
        print("same with ns/__init__.py ->", b)
        print("DEFECT PRESENT: `ns.mod` resolves to the directory ns/mod/, not to ns/mod.py" if bad else "defect absent")
        return 1 if bad else 0
    finally:
        shutil.rmtree(d, ignore_errors=True)


if __name__ == "__main__":
    sys.exit(main())
