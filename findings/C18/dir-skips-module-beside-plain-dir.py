#!/venv/bin/python
"""C18 finding: `mypy DIR` silently skips DIR/foo.py when a directory DIR/foo/ (without __init__) holds
python files, although the two do not collide (DIR/foo/c.py is module `c`, DIR/foo.py is module `foo`) and
listing the files individually checks both.

key: dir-vs-allfiles:files-checked-differ:module-beside-same-name-dir-without-init
mechanism: find_sources.SourceFinder.find_sources_in_dir adds the directory name to `seen` whenever the
directory produced sources, and then drops any foo.py/foo.pyi with that stem - also when the directory is
not a package under that name.

exit 1 = defect present, 0 = absent. Honours VERIF_REPO (scratch copy of the repository)."""
import os
import shutil
import subprocess
import sys
import tempfile

REPO = os.environ.get("VERIF_REPO", "/repo")
PY = "/venv/bin/python"


def mypy(args, cwd):
    env = dict(os.environ, PYTHONPATH=REPO if REPO != "/repo" else "", PYTHONDONTWRITEBYTECODE="1")
    env.pop("MYPYPATH", None)
    p = subprocess.run([PY, "-m", "mypy", "--no-error-summary", "--cache-dir", os.path.join(cwd, ".cache"), *args],
                       cwd=cwd, env=env, capture_output=True, text=True, timeout=600)
    return p.returncode, sorted(ln for ln in (p.stdout + p.stderr).splitlines() if ln.strip())


def main():
    d = tempfile.mkdtemp(prefix="c18-find-", dir="/var/tmp")
    try:
        os.makedirs(os.path.join(d, "proj", "foo"))
        with open(os.path.join(d, "proj", "foo.py"), "w") as f:
            f.write('y: int = ""\n')
        with open(os.path.join(d, "proj", "foo", "c.py"), "w") as f:
            f.write('z: int = ""\n')
        bad = False
        for flags in ([], ["--no-namespace-packages"]):
            a = mypy([*flags, "proj"], d)
            b = mypy([*flags, "proj/foo.py", "proj/foo/c.py"], d)
            print("flags", flags)
            print("  mypy proj                      ->", a)
            print("  mypy proj/foo.py proj/foo/c.py ->", b)
            if b[0] == 1 and a != b:
                bad = True
        print("DEFECT PRESENT: the directory run never checks proj/foo.py" if bad else "defect absent")
        return 1 if bad else 0
    finally:
        shutil.rmtree(d, ignore_errors=True)


if __name__ == "__main__":
    sys.exit(main())
