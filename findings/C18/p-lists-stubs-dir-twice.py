#!/venv/bin/python
"""C18 finding: `mypy -p pkg` puts one file into the build under two module names and then dies with an
INTERNAL ERROR when the package contains a PEP 561 style directory `pkg/foo-stubs/` next to `pkg/foo.py`.

key: graph:file-under-two-module-names:source+source:module-id-with-non-identifier-component
mechanism: FindModuleCache.find_modules_recursive recurses into every sub-directory under namespace packages,
also `foo-stubs`, producing BuildSource(pkg/foo-stubs/__init__.pyi, "pkg.foo-stubs"); for `pkg.foo` find_module
prefers the stub-only package and returns the same pkg/foo-stubs/__init__.pyi. load_graph checks root sources
only for equal module names, not for equal paths, so no "found twice" stop happens and the file is analysed twice
(AssertionError `file not in self.flushed_files` in Errors._add_error_info as soon as it has a diagnostic).

exit 1 = defect present, 0 = absent. Honours VERIF_REPO."""
import os
import shutil
import subprocess
import sys
import tempfile

REPO = os.environ.get("VERIF_REPO", "/repo")
PY = "/venv/bin/python"

PROBE = r'''
import sys, mypy.build as B
from mypy.main import main
orig = B.load_graph
def lg(sources, manager, old_graph=None, new_modules=None):
    g = orig(sources, manager, old_graph, new_modules)
    owners = {}
    for mid, st in g.items():
        if st.path and "/pkg/" in st.abspath:
            owners.setdefault(st.abspath, []).append(mid)
    for p, ids in owners.items():
        if len(ids) > 1:
            print("TWO-NAMES", p, ids, file=sys.stderr)
    return g
B.load_graph = lg
main(args=sys.argv[1:], clean_exit=True)
'''


def main():
    d = tempfile.mkdtemp(prefix="c18-find-", dir="/var/tmp")
    try:
        os.makedirs(os.path.join(d, "pkg", "foo-stubs"))
        for rel, text in (("pkg/__init__.py", ""), ("pkg/foo.py", "x = 1\n"), ("pkg/foo-stubs/__init__.pyi", "x: int\nundefined_name\n")):
            with open(os.path.join(d, rel), "w") as f:
                f.write(text)
        env = dict(os.environ, PYTHONPATH=REPO if REPO != "/repo" else "", PYTHONDONTWRITEBYTECODE="1")
        env.pop("MYPYPATH", None)
        p = subprocess.run([PY, "-c", PROBE, "--no-error-summary", "--cache-dir", os.path.join(d, ".cache"), "-p", "pkg"],
                           cwd=d, env=env, capture_output=True, text=True, timeout=600)
        out = p.stdout + p.stderr
        print("mypy -p pkg -> status", p.returncode)
        print("\n".join("    " + ln for ln in out.splitlines()[-12:]))
        bad = "TWO-NAMES" in out or "INTERNAL ERROR" in out or "AssertionError" in out
        print("DEFECT PRESENT: one file under two module names without a found-twice/duplicate stop" if bad else "defect absent")
        return 1 if bad else 0
    finally:
        shutil.rmtree(d, ignore_errors=True)


if __name__ == "__main__":
    sys.exit(main())
