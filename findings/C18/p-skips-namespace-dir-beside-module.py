#!/venv/bin/python
"""C18 finding: `mypy pkg` and `mypy -p pkg` check different files when pkg/a.py sits beside a directory
pkg/a/ without __init__ (namespace packages on, the default).

key: p-vs-dir:source-files-differ:module-beside-same-name-dir-without-init
mechanism: path->module (find_sources_in_dir) lets the directory win: it yields pkg/a/c.py as `pkg.a.c`
(and pkg/a.py then enters the graph as its ancestor `pkg.a`); module->path (find_modules_recursive via
find_module) lets the module win over a namespace directory: `pkg.a` is pkg/a.py, which is not a package, so
pkg/a/c.py is never visited. The two implementations disagree on which of the two shadows the other.

exit 1 = defect present, 0 = absent. Honours VERIF_REPO."""
import os
import shutil
import subprocess
import sys
import tempfile

REPO = os.environ.get("VERIF_REPO", "/repo")
PY = "/venv/bin/python"


def mypy(args, cwd):
    env = dict(os.environ, PYTHONPATH=REPO if REPO != "/repo" else "", PYTHONDONTWRITEBYTECODE="1")
    env.pop("MYPYPATH", None)
    p = subprocess.run([PY, "-m", "mypy", "--no-error-summary", "--cache-dir", os.path.join(cwd, ".cache"), *args],
                       cwd=cwd, env=env, capture_output=True, text=True, timeout=600)
    return p.returncode, sorted(ln for ln in (p.stdout + p.stderr).splitlines() if ln.strip())


def main():
    d = tempfile.mkdtemp(prefix="c18-find-", dir="/var/tmp")
    try:
        os.makedirs(os.path.join(d, "pkg", "a"))
        for rel, var in (("pkg/__init__.py", "x"), ("pkg/a.py", "y"), ("pkg/a/c.py", "z")):
            with open(os.path.join(d, rel), "w") as f:
                f.write(f'{var}: int = ""\n')
        a = mypy(["pkg"], d)
        b = mypy(["-p", "pkg"], d)
        print("mypy pkg    ->", a)
        print("mypy -p pkg ->", b)
        bad = a != b
        print("DEFECT PRESENT: the two invocations report different diagnostics" if bad else "defect absent")
        return 1 if bad else 0
    finally:
        shutil.rmtree(d, ignore_errors=True)


if __name__ == "__main__":
    sys.exit(main())
