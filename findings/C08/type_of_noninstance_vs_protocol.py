#!/venv/bin/python
"""C08 finding (mypy type lattice): is_subtype(Type[X], P) for a protocol P answers False whenever X is not an Instance/TypeVar (X = a NamedTuple or tuple
type, None, Never, Any) although Type[X] <= object <= Empty (protocol without members) and Type[X] <= Type[object] <= Empty.
Consequences: transitivity fails, and make_simplified_union([type, Type[Any], Empty]) = Empty loses Type[Any].
keys: transitivity:TypeType<=object<=Protocol
      transitivity:TypeType<=TypeType<=Protocol
      transitivity:TypeType<=Callable<=Protocol
      transitivity:TypeType<=TypeObj<=Protocol
      union-equiv:plain-not-le-simplified:lost=TypeType:result=Protocol

Standalone: evaluates the real functions of the repository (VERIF_REPO, default /repo) on types read back from a real
build. Exit status 1 = defect present, 0 = absent.
"""

SRC = '''from typing import Any, Callable, NamedTuple, Protocol, Type
from typing_extensions import Never
class Empty(Protocol): ...
class NT(NamedTuple):
    a: int
tnt: Type[NT]
tnone: Type[None]
tnever: Type[Never]
tany: Type[Any]
tobj: Type[object]
tbool: Type[bool]
o: object
e: Empty
ty: type
c: Callable[[], None]
objs = (NT,)
'''


def checks(T, sub, psub, join, meet, msu, Union):
    NT_obj = T["objs"].items[0]
    for s, t, u in ((T["tnt"], T["o"], T["e"]), (T["tnever"], T["tbool"], T["e"]), (T["tnone"], T["c"], T["e"]),
                    (T["tnt"], NT_obj, T["e"])):
        a, b, c = sub(s, t), sub(t, u), sub(s, u)
        yield f"{s} <= {t} ({a}) and {t} <= {u} ({b})  =>  {s} <= {u} ({c})", (not (a and b)) or c
    items = [T["ty"], T["tany"], T["e"]]
    r = msu(items)
    yield f"Union[type, Type[Any], Empty] <= make_simplified_union(...) = {r}", sub(Union(items), r)


import os
import shutil
import sys
import tempfile

REPO = os.environ.get("VERIF_REPO", "/repo")
if REPO != "/repo":
    sys.path.insert(0, REPO)   # a scratch copy of the repository takes precedence over the editable install


def build_types(src):
    """Type-check `src` with the real mypy.build and return {name: analysed type} for module-level
    annotated variables and functions (plus the parameters of a function called `scope`)."""
    from mypy import build
    from mypy.modulefinder import BuildSource
    from mypy.nodes import Decorator, FuncDef, OverloadedFuncDef, Var
    from mypy.options import Options

    d = tempfile.mkdtemp(prefix="c08-repro-", dir=os.environ.get("VERIF_WORK", "/var/tmp"))
    try:
        path = os.path.join(d, "m.py")
        with open(path, "w") as f:
            f.write(src)
        o = Options()
        o.python_version = (3, 12)
        o.incremental = False
        o.cache_dir = os.devnull
        o.allow_empty_bodies = True
        res = build.build([BuildSource(path, "m", None)], o)
        assert not res.errors, res.errors
        out = {}
        for name, sym in res.files["m"].names.items():
            n = sym.node
            if isinstance(n, Var) and n.type is not None:
                out[name] = n.type
            elif isinstance(n, (FuncDef, OverloadedFuncDef)) and n.type is not None:
                out[name] = n.type
                if name == "scope":
                    for an, at in zip(n.type.arg_names, n.type.arg_types):
                        out[an] = at
            elif isinstance(n, Decorator):
                out[name] = n.var.type
        return out
    finally:
        shutil.rmtree(d, ignore_errors=True)


def main():
    from mypy.join import join_types
    from mypy.meet import meet_types
    from mypy.subtypes import is_proper_subtype, is_subtype
    from mypy.typeops import make_simplified_union
    from mypy.types import UnionType

    T = build_types(SRC)
    bad = 0
    for label, ok in checks(T, is_subtype, is_proper_subtype, join_types, meet_types, make_simplified_union, UnionType):
        print(("ok      " if ok else "VIOLATED") + "  " + label)
        bad += not ok
    print("defect present" if bad else "defect absent")
    return 1 if bad else 0


if __name__ == "__main__":
    sys.exit(main())
