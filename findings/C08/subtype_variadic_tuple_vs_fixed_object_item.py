#!/venv/bin/python
"""C08 finding (mypy type lattice): is_subtype / is_proper_subtype accept a VARIADIC tuple as a subtype of a FIXED-length tuple with the same number of items
when the fixed item facing the Unpack is `object`: tuple[*tuple[B, ...], A] <= tuple[object, object] (and tuple[*Ts] <=
tuple[object]), because SubtypeVisitor.visit_tuple_type falls through to an item-wise check and visit_unpack_type says
Unpack[...] <= object. User visible (false negative): `y: tuple[object, object] = x` is accepted for
`x: tuple[*tuple[int, ...], str]`. Observed as a failure of transitivity, and make_simplified_union drops the variadic item.
keys: transitivity:Tuple<=TupleVar<=Tuple
      transitivity:TupleVar<=Tuple<=TupleVar
      union-equiv:plain-not-le-simplified:lost=Tuple:result=Tuple

Standalone: evaluates the real functions of the repository (VERIF_REPO, default /repo) on types read back from a real
build. Exit status 1 = defect present, 0 = absent.
"""

SRC = '''from typing_extensions import TypeVarTuple, Unpack
Ts = TypeVarTuple("Ts")
class A: ...
class B(A): ...
one: tuple[A]
var: tuple[Unpack[tuple[B, ...]], A]
fixed2: tuple[object, object]
fixed1: tuple[object]
var_obj: tuple[Unpack[tuple[A, ...]], object]
def scope(ts: tuple[Unpack[Ts]]) -> None: ...
'''


def checks(T, sub, psub, join, meet, msu, Union):
    yield f"NOT {T['var']} <= {T['fixed2']}", not sub(T["var"], T["fixed2"])
    yield f"NOT {T['ts']} <= {T['fixed1']}", not sub(T["ts"], T["fixed1"])
    for s, t, u in (("one", "var", "fixed2"), ("ts", "fixed1", "var_obj")):
        a, b, c = sub(T[s], T[t]), sub(T[t], T[u]), sub(T[s], T[u])
        yield f"{T[s]} <= {T[t]} ({a}) and {T[t]} <= {T[u]} ({b})  =>  {T[s]} <= {T[u]} ({c})", (not (a and b)) or c
    items = [T["one"], T["var"], T["fixed2"]]
    r = msu(items)
    yield f"Union[tuple[A], tuple[*tuple[B, ...], A], tuple[object, object]] <= make_simplified_union(...) = {r}", sub(Union(items), r)


import os
import shutil
import sys
import tempfile

REPO = os.environ.get("VERIF_REPO", "/repo")
if REPO != "/repo":
    sys.path.insert(0, REPO)   # a scratch copy of the repository takes precedence over the editable install


def build_types(src):
    """Type-check `src` with the real mypy.build and return {name: analysed type} for module-level
    annotated variables and functions (plus the parameters of a function called `scope`)."""
    from mypy import build
    from mypy.modulefinder import BuildSource
    from mypy.nodes import Decorator, FuncDef, OverloadedFuncDef, Var
    from mypy.options import Options

    d = tempfile.mkdtemp(prefix="c08-repro-", dir=os.environ.get("VERIF_WORK", "/var/tmp"))
    try:
        path = os.path.join(d, "m.py")
        with open(path, "w") as f:
            f.write(src)
        o = Options()
        o.python_version = (3, 12)
        o.incremental = False
        o.cache_dir = os.devnull
        o.allow_empty_bodies = True
        res = build.build([BuildSource(path, "m", None)], o)
        assert not res.errors, res.errors
        out = {}
        for name, sym in res.files["m"].names.items():
            n = sym.node
            if isinstance(n, Var) and n.type is not None:
                out[name] = n.type
            elif isinstance(n, (FuncDef, OverloadedFuncDef)) and n.type is not None:
                out[name] = n.type
                if name == "scope":
                    for an, at in zip(n.type.arg_names, n.type.arg_types):
                        out[an] = at
            elif isinstance(n, Decorator):
                out[name] = n.var.type
        return out
    finally:
        shutil.rmtree(d, ignore_errors=True)


def main():
    from mypy.join import join_types
    from mypy.meet import meet_types
    from mypy.subtypes import is_proper_subtype, is_subtype
    from mypy.typeops import make_simplified_union
    from mypy.types import UnionType

    T = build_types(SRC)
    bad = 0
    for label, ok in checks(T, is_subtype, is_proper_subtype, join_types, meet_types, make_simplified_union, UnionType):
        print(("ok      " if ok else "VIOLATED") + "  " + label)
        bad += not ok
    print("defect present" if bad else "defect absent")
    return 1 if bad else 0


if __name__ == "__main__":
    sys.exit(main())
