#!/venv/bin/python
"""C08 finding (mypy type lattice): meet_types(tuple[*Ts], Sequence[X]) replaces the *Ts item by *tuple[Never, ...]; the result is not a subtype of
tuple[*Ts] (also through Iterable[X] and through a recursive alias containing Sequence).
keys: meet-lb:InstancexTupleVar->TupleVar:not-le(TupleVar)
      meet-lb:ProtocolxTupleVar->TupleVar:not-le(TupleVar)
      meet-lb:RecAliasxTupleVar->TupleVar:not-le(TupleVar)

Standalone: evaluates the real functions of the repository (VERIF_REPO, default /repo) on types read back from a real
build. Exit status 1 = defect present, 0 = absent.
"""

SRC = '''from typing import Iterable, Sequence, Union
from typing_extensions import TypeVarTuple, Unpack
Ts = TypeVarTuple("Ts")
class A: ...
Nested = Union[int, Sequence["Nested"]]
def scope(t: tuple[Unpack[Ts]], s: Sequence[A], i: Iterable[A], n: Nested) -> None: ...
'''


def checks(T, sub, psub, join, meet, msu, Union):
    m = meet(T["t"], T["s"])
    yield f"meet({T["t"]}, {T["s"]}) = {m}  <=  {T["t"]}", sub(m, T["t"])
    yield f"meet({T["t"]}, {T["s"]}) = {m}  <=  {T["s"]}", sub(m, T["s"])
    m = meet(T["t"], T["i"])
    yield f"meet({T["t"]}, {T["i"]}) = {m}  <=  {T["t"]}", sub(m, T["t"])
    yield f"meet({T["t"]}, {T["i"]}) = {m}  <=  {T["i"]}", sub(m, T["i"])
    m = meet(T["t"], T["n"])
    yield f"meet({T["t"]}, {T["n"]}) = {m}  <=  {T["t"]}", sub(m, T["t"])
    yield f"meet({T["t"]}, {T["n"]}) = {m}  <=  {T["n"]}", sub(m, T["n"])


import os
import shutil
import sys
import tempfile

REPO = os.environ.get("VERIF_REPO", "/repo")
if REPO != "/repo":
    sys.path.insert(0, REPO)   # a scratch copy of the repository takes precedence over the editable install


def build_types(src):
    """Type-check `src` with the real mypy.build and return {name: analysed type} for module-level
    annotated variables and functions (plus the parameters of a function called `scope`)."""
    from mypy import build
    from mypy.modulefinder import BuildSource
    from mypy.nodes import Decorator, FuncDef, OverloadedFuncDef, Var
    from mypy.options import Options

    d = tempfile.mkdtemp(prefix="c08-repro-", dir=os.environ.get("VERIF_WORK", "/var/tmp"))
    try:
        path = os.path.join(d, "m.py")
        with open(path, "w") as f:
            f.write(src)
        o = Options()
        o.python_version = (3, 12)
        o.incremental = False
        o.cache_dir = os.devnull
        o.allow_empty_bodies = True
        res = build.build([BuildSource(path, "m", None)], o)
        assert not res.errors, res.errors
        out = {}
        for name, sym in res.files["m"].names.items():
            n = sym.node
            if isinstance(n, Var) and n.type is not None:
                out[name] = n.type
            elif isinstance(n, (FuncDef, OverloadedFuncDef)) and n.type is not None:
                out[name] = n.type
                if name == "scope":
                    for an, at in zip(n.type.arg_names, n.type.arg_types):
                        out[an] = at
            elif isinstance(n, Decorator):
                out[name] = n.var.type
        return out
    finally:
        shutil.rmtree(d, ignore_errors=True)


def main():
    from mypy.join import join_types
    from mypy.meet import meet_types
    from mypy.subtypes import is_proper_subtype, is_subtype
    from mypy.typeops import make_simplified_union
    from mypy.types import UnionType

    T = build_types(SRC)
    bad = 0
    for label, ok in checks(T, is_subtype, is_proper_subtype, join_types, meet_types, make_simplified_union, UnionType):
        print(("ok      " if ok else "VIOLATED") + "  " + label)
        bad += not ok
    print("defect present" if bad else "defect absent")
    return 1 if bad else 0


if __name__ == "__main__":
    sys.exit(main())
