#!/venv/bin/python
"""C08 finding (mypy type lattice): join_types / meet_types of callables whose parameter NAMES differ keep the names of one side (join) or drop a name
the other side needs (meet), so the result is not an upper / lower bound.
keys: join-ub:CallablexCallable->Callable:arg-names-differ:not-ge(Callable)
      meet-lb:CallablexCallable->Callable:arg-names-differ:not-le(Callable)
      meet-lb:CallablexProtocol->Callable:not-le(Protocol)

Standalone: evaluates the real functions of the repository (VERIF_REPO, default /repo) on types read back from a real
build. Exit status 1 = defect present, 0 = absent.
"""

SRC = '''from typing import Callable, Protocol
def f(*, k: int) -> None: ...
def g(*, x: int) -> None: ...
def named(x: str) -> str: ...
anon: Callable[[int], str]
anon_s: Callable[[str], str]
class CallP(Protocol):
    def __call__(self, x: int) -> str: ...
cp: CallP
'''


def checks(T, sub, psub, join, meet, msu, Union):
    j = join(T["f"], T["g"])
    yield f"f <= join(f,g) = {j}   [f = {T['f']}]", sub(T["f"], j)
    yield f"g <= join(f,g) = {j}   [g = {T['g']}]", sub(T["g"], j)
    m = meet(T["named"], T["anon"])
    yield f"meet(named, anon) = {m} <= named = {T['named']}", sub(m, T["named"])
    m = meet(T["anon_s"], T["cp"])
    yield f"meet(Callable[[str], str], CallP) = {m} <= CallP", sub(m, T["cp"])


import os
import shutil
import sys
import tempfile

REPO = os.environ.get("VERIF_REPO", "/repo")
if REPO != "/repo":
    sys.path.insert(0, REPO)   # a scratch copy of the repository takes precedence over the editable install


def build_types(src):
    """Type-check `src` with the real mypy.build and return {name: analysed type} for module-level
    annotated variables and functions (plus the parameters of a function called `scope`)."""
    from mypy import build
    from mypy.modulefinder import BuildSource
    from mypy.nodes import Decorator, FuncDef, OverloadedFuncDef, Var
    from mypy.options import Options

    d = tempfile.mkdtemp(prefix="c08-repro-", dir=os.environ.get("VERIF_WORK", "/var/tmp"))
    try:
        path = os.path.join(d, "m.py")
        with open(path, "w") as f:
            f.write(src)
        o = Options()
        o.python_version = (3, 12)
        o.incremental = False
        o.cache_dir = os.devnull
        o.allow_empty_bodies = True
        res = build.build([BuildSource(path, "m", None)], o)
        assert not res.errors, res.errors
        out = {}
        for name, sym in res.files["m"].names.items():
            n = sym.node
            if isinstance(n, Var) and n.type is not None:
                out[name] = n.type
            elif isinstance(n, (FuncDef, OverloadedFuncDef)) and n.type is not None:
                out[name] = n.type
                if name == "scope":
                    for an, at in zip(n.type.arg_names, n.type.arg_types):
                        out[an] = at
            elif isinstance(n, Decorator):
                out[name] = n.var.type
        return out
    finally:
        shutil.rmtree(d, ignore_errors=True)


def main():
    from mypy.join import join_types
    from mypy.meet import meet_types
    from mypy.subtypes import is_proper_subtype, is_subtype
    from mypy.typeops import make_simplified_union
    from mypy.types import UnionType

    T = build_types(SRC)
    bad = 0
    for label, ok in checks(T, is_subtype, is_proper_subtype, join_types, meet_types, make_simplified_union, UnionType):
        print(("ok      " if ok else "VIOLATED") + "  " + label)
        bad += not ok
    print("defect present" if bad else "defect absent")
    return 1 if bad else 0


if __name__ == "__main__":
    sys.exit(main())
