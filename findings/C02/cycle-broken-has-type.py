#!/venv/bin/python
"""C02 finding: 'Cannot determine type of ...  [has-type]' errors depend on the import cycle a module is checked in,
but they are cached per module.  Breaking the cycle by an edit in ANOTHER module leaves the module fresh, so the
warm run keeps reporting errors a cold run on the same files no longer reports.
key: cycle-dependent-has-type
Standalone (VERIF_REPO, default /repo).  Exit status 1 = defect present, 0 = absent."""
import os, shutil, subprocess, sys, tempfile

REPO = os.environ.get("VERIF_REPO", "/repo")
FILES = {
    "ma.py": "import mg\nclass CV1:\n    count = b'b'\n",
    "mb.py": "import ma\nu1: bytes = ma.CV1.count\n",
    "mg.py": "import mx\n",
    "mx.py": "import mb\nX = 1\n",
}


def run(d, cache):
    r = subprocess.run([sys.executable, "-m", "mypy", "--no-error-summary", "--cache-dir", cache, "."], cwd=d,
                       capture_output=True, text=True, env={**os.environ, "PYTHONPATH": REPO})
    return r.stdout


d = tempfile.mkdtemp(prefix="c02-cycle-", dir="/var/tmp")
try:
    for f, s in FILES.items():
        open(os.path.join(d, f), "w").write(s)
        os.utime(os.path.join(d, f), (1e9, 1e9))
    out1 = run(d, ".warm")
    open(os.path.join(d, "mx.py"), "w").write("X = 1\n")      # the cycle mx -> mb -> ma -> mg -> mx is broken
    os.utime(os.path.join(d, "mx.py"), (1e9 + 10, 1e9 + 10))
    warm = run(d, ".warm")
    cold = run(d, ".cold")
    print("with the cycle:\n" + out1 + "warm after breaking it:\n" + warm + "cold after breaking it:\n" + cold)
    sys.exit(1 if warm != cold else 0)
finally:
    shutil.rmtree(d, ignore_errors=True)
