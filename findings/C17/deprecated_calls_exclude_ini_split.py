#!/venv/bin/python
"""C17 finding: `deprecated_calls_exclude` given in mypy.ini / setup.cfg (or as a TOML *string*) is split into single
characters, so the documented "comma-separated list of strings" excludes nothing; the command line flag and a TOML array work.

Mechanism: the key is missing from config_parser.ini_config_types / toml_config_types, so parse_section falls back to
`type(default)` == list and calls list("lib") == ['l', 'i', 'b'].

Keys: equiv:value-split-into-characters:deprecated_calls_exclude:ini-format
      equiv:value-split-into-characters:deprecated_calls_exclude:toml-string
Exit 1 if the defect is present, 0 if absent."""
import os
import subprocess
import sys
import tempfile

PY = "/venv/bin/python"
REPO = os.environ.get("VERIF_REPO", "/repo")
LIB = 'from typing_extensions import deprecated\n@deprecated("use new")\ndef old() -> None: ...\n'
MAIN = "import lib\nlib.old()\n"


def run(d: str, args: list[str]) -> str:
    env = dict(os.environ, PYTHONPATH=REPO)
    p = subprocess.run([PY, "-m", "mypy", "--cache-dir=" + os.devnull, "--no-error-summary", *args, "m.py"], cwd=d, env=env,
                       capture_output=True, text=True)
    return p.stdout + p.stderr


def main() -> int:
    outs = {}
    with tempfile.TemporaryDirectory(dir="/var/tmp") as d:
        open(os.path.join(d, "lib.py"), "w").write(LIB)
        open(os.path.join(d, "m.py"), "w").write(MAIN)
        open(os.path.join(d, "empty.ini"), "w").write("[mypy]\n")
        outs["cli"] = run(d, ["--config-file", "empty.ini", "--enable-error-code", "deprecated", "--deprecated-calls-exclude", "lib"])
        open(os.path.join(d, "mypy.ini"), "w").write("[mypy]\nenable_error_code = deprecated\ndeprecated_calls_exclude = lib\n")
        outs["mypy.ini"] = run(d, [])
        os.remove(os.path.join(d, "mypy.ini"))
        open(os.path.join(d, "pyproject.toml"), "w").write('[tool.mypy]\nenable_error_code = ["deprecated"]\ndeprecated_calls_exclude = ["lib"]\n')
        outs["toml array"] = run(d, [])
        open(os.path.join(d, "pyproject.toml"), "w").write('[tool.mypy]\nenable_error_code = ["deprecated"]\ndeprecated_calls_exclude = "lib"\n')
        outs["toml string"] = run(d, [])
    for k, v in outs.items():
        print(f"--- {k}\n{v.strip() or '(no diagnostics)'}")
    if len(set(outs.values())) > 1:
        print("DEFECT PRESENT: the same setting has different effects depending on the source")
        return 1
    print("defect absent: all sources agree")
    return 0


if __name__ == "__main__":
    sys.exit(main())
