#!/venv/bin/python
"""C17 finding: an unstructured pattern with a *leading* star, `[mypy-*.b]`, matches `a.b` and `x.y.b` but not the top-level
module `b`, although config_file.rst says "Stars match zero or more module components (so site.*.migrations.* can match
site.migrations)". Inner and trailing stars do match zero components; only the leading one needs at least one.

Mechanism: Options.compile_glob turns a leading "*" into ".*" followed by "\\.b", which requires a dot before "b".

Key: precedence:section-ignored:unstructured:zero-width-leading-star
Exit 1 if the defect is present, 0 if absent."""
import os
import subprocess
import sys
import tempfile

PY = "/venv/bin/python"
REPO = os.environ.get("VERIF_REPO", "/repo")


def main() -> int:
    with tempfile.TemporaryDirectory(dir="/var/tmp") as d:
        os.makedirs(os.path.join(d, "a"))
        open(os.path.join(d, "a", "__init__.py"), "w").write("")
        open(os.path.join(d, "a", "b.py"), "w").write("def f(x): return x\n")
        open(os.path.join(d, "b.py"), "w").write("def f(x): return x\n")
        open(os.path.join(d, "mypy.ini"), "w").write("[mypy]\n[mypy-*.b]\ndisallow_untyped_defs = True\n")
        p = subprocess.run([PY, "-m", "mypy", "--cache-dir=" + os.devnull, "a", "b.py"], cwd=d, env=dict(os.environ, PYTHONPATH=REPO),
                           capture_output=True, text=True)
    print(p.stdout + p.stderr)
    nested = "a/b.py:1: error" in p.stdout
    top = "\nb.py:1: error" in "\n" + p.stdout
    if nested and not top:
        print("DEFECT PRESENT: [mypy-*.b] applies to a.b but not to the top-level module b (star = zero components)")
        return 1
    print("defect absent" if (nested and top) else "unexpected outcome (pattern did not match a.b either)")
    return 0 if (nested and top) else 1


if __name__ == "__main__":
    sys.exit(main())
