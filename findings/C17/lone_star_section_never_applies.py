#!/venv/bin/python
"""C17 finding: a `[mypy-*]` section (pattern consisting of a single star) is accepted without complaint but matches no
module at all, although config_file.rst says patterns are module names "with some components optionally replaced by the '*'
character" and "stars match zero or more module components".

Mechanism: Options.build_per_module_cache files "*" under the *concrete* names (`"*" in k[:-1]` is False for k == "*",
and it does not end with ".*"), so it is only ever looked up for a module literally called "*".

Key: precedence:section-ignored:lone-star
Exit 1 if the defect is present, 0 if absent."""
import os
import subprocess
import sys
import tempfile

PY = "/venv/bin/python"
REPO = os.environ.get("VERIF_REPO", "/repo")


def main() -> int:
    with tempfile.TemporaryDirectory(dir="/var/tmp") as d:
        open(os.path.join(d, "m.py"), "w").write("def f(x): return x\n")
        open(os.path.join(d, "mypy.ini"), "w").write("[mypy]\n[mypy-*]\ndisallow_untyped_defs = True\n")
        p = subprocess.run([PY, "-m", "mypy", "--cache-dir=" + os.devnull, "m.py"], cwd=d, env=dict(os.environ, PYTHONPATH=REPO),
                           capture_output=True, text=True)
    print(p.stdout + p.stderr)
    if "no-untyped-def" in p.stdout:
        print("defect absent: [mypy-*] applies to module m")
        return 0
    print("DEFECT PRESENT: [mypy-*] disallow_untyped_defs=True had no effect on module m (and no error about the pattern)")
    return 1


if __name__ == "__main__":
    sys.exit(main())
