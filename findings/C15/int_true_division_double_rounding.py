#!/venv/bin/python
"""int / int is not correctly rounded when an operand exceeds 2**53 but is still a short (tagged) int.

CPyTagged_TrueDivide's fast path computes (double)x / (double)y: each conversion rounds, then the division
rounds again. CPython's int.__truediv__ returns the correctly rounded quotient, e.g.
4405802551846532254 / 5 == 8.811605103693065e+17 (compiled: 8.811605103693064e+17).

Standalone repro for property C15 (compiled numeric primitives compute exactly what Python computes).
Builds a tiny module with the mypyc of the repository (/repo, or $VERIF_REPO) in a scratch directory under
/var/tmp, calls the compiled function and compares with CPython running the same source.
Exit status: 1 = defect present, 0 = absent, 2 = could not build/run.
Mechanism key(s): wrong-value:int-truediv:operand-inexact-as-float
"""
import os, shutil, subprocess, sys, tempfile

SOURCE = 'from mypy_extensions import i64, i32, i16, u8\n\ndef div(a: int, b: int) -> float:\n    return a / b\n\ndef div64(a: i64, b: i64) -> float:\n    return int(a) / int(b)\n'

CASES = [('div', ['4405802551846532254', '5']), ('div', ['3', '4405802551846532254']), ('div', ['-4611686018427387904', '-373196951910038247']), ('div64', ['-3653763589038148967', '3']), ('div', ['7', '2'])]   # (function, argument reprs)

DRIVER = r"""
import math, sys
inf, nan = math.inf, math.nan
import repro_mod                       # compiled
ns = {}
exec(compile(open("repro_mod.py").read(), "repro_mod.py", "exec"), ns)   # interpreted reference
def outcome(f, args):
    try:
        v = f(*args)
        return ("value", type(v).__name__, repr(v))
    except Exception as e:
        return ("raises", type(e).__name__, "")
bad = 0
for name, reprs in CASES:
    args = [eval(r) for r in reprs]
    c = outcome(getattr(repro_mod, name), args)
    p = outcome(ns[name], args)
    same = c == p
    print(("ok      " if same else "MISMATCH"), name, tuple(reprs), "compiled:", c, "CPython:", p)
    bad += not same
sys.exit(1 if bad else 0)
"""


def main() -> int:
    repo = os.environ.get("VERIF_REPO", "/repo")
    d = tempfile.mkdtemp(prefix="c15-repro-", dir="/var/tmp")
    try:
        with open(os.path.join(d, "repro_mod.py"), "w") as f:
            f.write(SOURCE)
        with open(os.path.join(d, "setup.py"), "w") as f:
            f.write("from setuptools import setup\nfrom mypyc.build import mypycify\n"
                    "setup(name='repro_mod', ext_modules=mypycify(['repro_mod.py'], opt_level='3'),"
                    " script_args=['build_ext', '--inplace', '-q'])\n")
        env = dict(os.environ, PYTHONPATH=repo, PYTHONDONTWRITEBYTECODE="1", MYPY_CACHE_DIR=os.path.join(d, ".mc"))
        b = subprocess.run([sys.executable, "setup.py"], cwd=d, env=env, capture_output=True, text=True)
        if b.returncode != 0:
            print(b.stdout[-2000:], b.stderr[-2000:])
            print("BUILD FAILED")
            return 2
        with open(os.path.join(d, "driver.py"), "w") as f:
            f.write("CASES = " + repr(CASES) + "\n" + DRIVER)
        r = subprocess.run([sys.executable, "driver.py"], cwd=d, env=env)
        return r.returncode if r.returncode in (0, 1) else 2
    finally:
        shutil.rmtree(d, ignore_errors=True)


if __name__ == "__main__":
    sys.exit(main())
