#!/venv/bin/python
"""Shifting a fixed-width int (i64/i32/i16/u8) by a count >= the bit width gives the wrong value.

mypyc emits a bare C shift (`a >> b`, `a << b`); C leaves counts >= width undefined and x86 masks the count,
so i64(-8) >> 64 is -8 (CPython: -1) and u8(255) >> 32 is 255 (CPython: 0); u8(1) << 32 is 1 although u8
arithmetic is documented to wrap (1 << 32 mod 256 == 0). The exact results fit the type. UBSan reports
`shift exponent N is too large` at the same sites.

Standalone repro for property C15 (compiled numeric primitives compute exactly what Python computes).
Builds a tiny module with the mypyc of the repository (/repo, or $VERIF_REPO) in a scratch directory under
/var/tmp, calls the compiled function and compares with CPython running the same source.
Exit status: 1 = defect present, 0 = absent, 2 = could not build/run.
Mechanism key(s): wrong-value:fixed-width-shift:count>=width ; sanitizer:ubsan:shift-exponent-N-is-too-large-for-N-bit-type-T:fixed-width-shift:count>=width
"""
import os, shutil, subprocess, sys, tempfile

SOURCE = 'from mypy_extensions import i64, i32, i16, u8\n\ndef shr64(a: i64, b: i64) -> i64:\n    return a >> b\n\ndef shr32(a: i32, b: i32) -> i32:\n    return a >> b\n\ndef shr16(a: i16, b: int) -> i16:\n    return a >> b\n\ndef shr8(a: u8, b: u8) -> u8:\n    return a >> b\n\ndef shr64_lit_left(a: i64) -> i64:\n    return 1 >> a\n'

CASES = [('shr64', ['-8', '64']), ('shr64', ['-2**63', '126']), ('shr32', ['-2147483648', '32']), ('shr16', ['-32768', '32']), ('shr8', ['255', '32']), ('shr8', ['1', '128']), ('shr64_lit_left', ['64']), ('shr64', ['-8', '63'])]   # (function, argument reprs)

DRIVER = r"""
import math, sys
inf, nan = math.inf, math.nan
import repro_mod                       # compiled
ns = {}
exec(compile(open("repro_mod.py").read(), "repro_mod.py", "exec"), ns)   # interpreted reference
def outcome(f, args):
    try:
        v = f(*args)
        return ("value", type(v).__name__, repr(v))
    except Exception as e:
        return ("raises", type(e).__name__, "")
bad = 0
for name, reprs in CASES:
    args = [eval(r) for r in reprs]
    c = outcome(getattr(repro_mod, name), args)
    p = outcome(ns[name], args)
    same = c == p
    print(("ok      " if same else "MISMATCH"), name, tuple(reprs), "compiled:", c, "CPython:", p)
    bad += not same
sys.exit(1 if bad else 0)
"""


def main() -> int:
    repo = os.environ.get("VERIF_REPO", "/repo")
    d = tempfile.mkdtemp(prefix="c15-repro-", dir="/var/tmp")
    try:
        with open(os.path.join(d, "repro_mod.py"), "w") as f:
            f.write(SOURCE)
        with open(os.path.join(d, "setup.py"), "w") as f:
            f.write("from setuptools import setup\nfrom mypyc.build import mypycify\n"
                    "setup(name='repro_mod', ext_modules=mypycify(['repro_mod.py'], opt_level='3'),"
                    " script_args=['build_ext', '--inplace', '-q'])\n")
        env = dict(os.environ, PYTHONPATH=repo, PYTHONDONTWRITEBYTECODE="1", MYPY_CACHE_DIR=os.path.join(d, ".mc"))
        b = subprocess.run([sys.executable, "setup.py"], cwd=d, env=env, capture_output=True, text=True)
        if b.returncode != 0:
            print(b.stdout[-2000:], b.stderr[-2000:])
            print("BUILD FAILED")
            return 2
        with open(os.path.join(d, "driver.py"), "w") as f:
            f.write("CASES = " + repr(CASES) + "\n" + DRIVER)
        r = subprocess.run([sys.executable, "driver.py"], cwd=d, env=env)
        return r.returncode if r.returncode in (0, 1) else 2
    finally:
        shutil.rmtree(d, ignore_errors=True)


if __name__ == "__main__":
    sys.exit(main())
