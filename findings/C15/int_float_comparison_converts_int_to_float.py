#!/venv/bin/python
"""Comparing an int with a float converts the int to float first, so the result is wrong when the int is not
exactly representable as a double (|n| > 2**53).

CPython compares int and float exactly: 2.0**53 == 2**53 + 1 is False, 4.611686018427388e18 < 2**62 + 1 is True.
The compiled code calls CPyFloat_FromTagged on the int operand and compares doubles (True / False).

Standalone repro for property C15 (compiled numeric primitives compute exactly what Python computes).
Builds a tiny module with the mypyc of the repository (/repo, or $VERIF_REPO) in a scratch directory under
/var/tmp, calls the compiled function and compares with CPython running the same source.
Exit status: 1 = defect present, 0 = absent, 2 = could not build/run.
Mechanism key(s): wrong-value:int-float-mixed:compare:int-inexact-as-float
"""
import os, shutil, subprocess, sys, tempfile

SOURCE = 'def eq_fi(a: float, b: int) -> bool:\n    return a == b\n\ndef lt_fi(a: float, b: int) -> bool:\n    return a < b\n\ndef ge_if(a: int, b: float) -> bool:\n    return a >= b\n\ndef eq_lit(a: float) -> bool:\n    return a == 9007199254740993\n'

CASES = [('eq_fi', ['9007199254740992.0', '9007199254740993']), ('lt_fi', ['4.611686018427388e+18', '4611686018427387905']), ('ge_if', ['-9223372036854775809', '-9.223372036854776e+18']), ('eq_lit', ['9007199254740992.0']), ('eq_fi', ['3.0', '3'])]   # (function, argument reprs)

DRIVER = r"""
import math, sys
inf, nan = math.inf, math.nan
import repro_mod                       # compiled
ns = {}
exec(compile(open("repro_mod.py").read(), "repro_mod.py", "exec"), ns)   # interpreted reference
def outcome(f, args):
    try:
        v = f(*args)
        return ("value", type(v).__name__, repr(v))
    except Exception as e:
        return ("raises", type(e).__name__, "")
bad = 0
for name, reprs in CASES:
    args = [eval(r) for r in reprs]
    c = outcome(getattr(repro_mod, name), args)
    p = outcome(ns[name], args)
    same = c == p
    print(("ok      " if same else "MISMATCH"), name, tuple(reprs), "compiled:", c, "CPython:", p)
    bad += not same
sys.exit(1 if bad else 0)
"""


def main() -> int:
    repo = os.environ.get("VERIF_REPO", "/repo")
    d = tempfile.mkdtemp(prefix="c15-repro-", dir="/var/tmp")
    try:
        with open(os.path.join(d, "repro_mod.py"), "w") as f:
            f.write(SOURCE)
        with open(os.path.join(d, "setup.py"), "w") as f:
            f.write("from setuptools import setup\nfrom mypyc.build import mypycify\n"
                    "setup(name='repro_mod', ext_modules=mypycify(['repro_mod.py'], opt_level='3'),"
                    " script_args=['build_ext', '--inplace', '-q'])\n")
        env = dict(os.environ, PYTHONPATH=repo, PYTHONDONTWRITEBYTECODE="1", MYPY_CACHE_DIR=os.path.join(d, ".mc"))
        b = subprocess.run([sys.executable, "setup.py"], cwd=d, env=env, capture_output=True, text=True)
        if b.returncode != 0:
            print(b.stdout[-2000:], b.stderr[-2000:])
            print("BUILD FAILED")
            return 2
        with open(os.path.join(d, "driver.py"), "w") as f:
            f.write("CASES = " + repr(CASES) + "\n" + DRIVER)
        r = subprocess.run([sys.executable, "driver.py"], cwd=d, env=env)
        return r.returncode if r.returncode in (0, 1) else 2
    finally:
        shutil.rmtree(d, ignore_errors=True)


if __name__ == "__main__":
    sys.exit(main())
