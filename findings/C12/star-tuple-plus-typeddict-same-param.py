#!/venv/bin/python
"""C12 call binding, key call-binding:false-accept:multiple-values-for-argument:param-kind=K:via=**TypedDict+*tuple.

A parameter filled both by a fixed-length `*tuple` and by a total `**TypedDict` key: mypy.checkexpr.is_duplicate_mapping
exempts every (ARG_STAR, ARG_STAR2) pair - meant for `f(*args, **kwargs)` of unknown shape - also when both shapes are
known exactly. CPython: "got multiple values for argument 'a'". exit 1 = defect present."""
import sys
from _common import cpython_raises, run_mypy

SRC = '''
from typing import TypedDict
class TD(TypedDict):
    a: int
d: TD = {"a": 1}
t: tuple[int] = (1,)
def f(a: int) -> None: ...
f(*t, **d)
'''
rt = cpython_raises(SRC)
out, err, status = run_mypy(SRC)
print("CPython:", rt)
print("mypy   :", (out + err).strip() or "<no diagnostic>")
assert rt is not None, "CPython is expected to reject the call"
diagnosed = status == 1 and "INTERNAL ERROR" not in out + err and "error:" in out
sys.exit(0 if diagnosed else 1)
