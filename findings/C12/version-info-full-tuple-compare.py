#!/venv/bin/python
"""C12 reachability, keys reach:version:unbounded-upper:op=== / op=!= / op=<= / op=>.

mypy.reachability.consider_sys_version_info compares `sys.version_info` (and slices without an upper bound such as
`sys.version_info[1:]`) as if it were the 2-tuple (major, minor). At run time it has 5 elements, so for the target
version itself `== (3, 12)` is False, `!= (3, 12)` True, `<= (3, 12)` False and `> (3, 12)` True; mypy decides the
opposite and marks the branch that really executes as unreachable. (The function's own comment says ==/!= are not
supported for the unsliced form.) exit 1 = defect present."""
import sys
from _common import run_mypy

conds = ["sys.version_info == (3, 12)", "sys.version_info != (3, 12)", "sys.version_info <= (3, 12)",
         "sys.version_info > (3, 12)", "sys.version_info[1:] == (12,)"]
src = "import sys\n"
for i, c in enumerate(conds):
    src += f"if {c}:\n    reveal_type('taken-{i}')\nelse:\n    reveal_type('not-taken-{i}')\n"
out, err, status = run_mypy(src, "--python-version", "3.12")


class VI(tuple):
    pass


class FakeSys:
    version_info = VI((3, 12, 1, "final", 0))


bad = 0
for i, c in enumerate(conds):
    rt = bool(eval(c, {"sys": FakeSys}))
    taken, not_taken = f"taken-{i}" in out.replace("not-taken", "NOT"), f"not-taken-{i}" in out
    static = "unknown" if taken and not_taken else "always true" if taken else "always false"
    wrong = static != "unknown" and (static == "always true") != rt
    bad += wrong
    print(f"{c:34s} CPython 3.12.1: {rt!s:5s} mypy --python-version 3.12: {static}{'   <-- disagrees' if wrong else ''}")
sys.exit(1 if bad else 0)
