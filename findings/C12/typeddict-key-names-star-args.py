#!/venv/bin/python
"""C12 call binding, key call-binding:false-accept:unexpected-keyword-argument:param-kind=V:via=**TypedDict
(and its consequences ...multiple-values-for-keyword-argument:lands-in=*args:via=**TypedDict+keyword / **TypedDict-twice).

A `**TypedDict` key that equals the NAME of the callee's *args parameter is mapped onto *args by
mypy.argmap.map_actuals_to_formals (the TypedDict branch lacks the `!= ARG_STAR` test the keyword branch has), so mypy
accepts a call CPython rejects with "got an unexpected keyword argument". exit 1 = defect present."""
import sys
from _common import cpython_raises, run_mypy

SRC = '''
from typing import TypedDict
class TD(TypedDict):
    args: int
d: TD = {"args": 1}
def f(*args: int) -> None: ...
f(**d)
'''
rt = cpython_raises(SRC)
out, err, status = run_mypy(SRC)
print("CPython:", rt)
print("mypy   :", (out + err).strip() or "<no diagnostic>")
assert rt is not None, "CPython is expected to reject the call"
diagnosed = status == 1 and "INTERNAL ERROR" not in out + err and "error:" in out
sys.exit(0 if diagnosed else 1)
