#!/venv/bin/python
"""C12 constant folding, keys fold:internal-error:Overflow|MemoryError@constant_fold_binary_int_op / ..._binary_op /
..._binary_float_op.

mypy.constant_fold evaluates `<<`, `*` (str repeat) and int/float mixes without guarding against operands that are too
large: where CPython raises OverflowError/MemoryError at run time, mypy itself dies with INTERNAL ERROR (any plain
assignment is enough, semanal folds every rvalue). exit 1 = defect present."""
import sys
from _common import run_mypy

CASES = {"constant_fold_binary_int_op": "x = 1 << 100000000000000000000\n",
         "constant_fold_binary_op": "y = 'a' * 100000000000000000000\n",
         "constant_fold_binary_float_op": "z = 2 ** 1024 * 1.0\n"}
bad = 0
for func, src in CASES.items():
    try:
        exec(src, {})
        rt = "evaluates"
    except Exception as e:
        rt = f"raises {type(e).__name__}"
    out, err, status = run_mypy(src)
    crashed = "INTERNAL ERROR" in out + err
    print(f"{src.strip():45s} CPython {rt:22s} mypy: {'INTERNAL ERROR in ' + func if crashed else 'ok (status %d)' % status}")
    bad += crashed
sys.exit(1 if bad else 0)
