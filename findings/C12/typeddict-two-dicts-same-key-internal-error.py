#!/venv/bin/python
"""C12 call binding, key call-binding:internal-error:KeyError@argmap.py:expand_actual_type:cpython-rejects.

Two **TypedDict actuals that share a key which ends up in **kwargs: instead of a "multiple values" diagnostic mypy dies
with INTERNAL ERROR (KeyError: 'pop from an empty set' in ArgTypeExpander.expand_actual_type, whose `kwargs_used` set is
shared by all ** actuals of the call). CPython: TypeError "got multiple values for keyword argument".
exit 1 = defect present."""
import sys
from _common import cpython_raises, run_mypy

SRC = '''
from typing import TypedDict
class TD(TypedDict):
    z: int
d: TD = {"z": 1}
def f(**kw: int) -> None: ...
f(**d, **d)
'''
rt = cpython_raises(SRC)
out, err, status = run_mypy(SRC)
print("CPython:", rt)
print("mypy   :", (out + err).strip()[-600:] or "<no diagnostic>")
assert rt is not None, "CPython is expected to reject the call"
crashed = "INTERNAL ERROR" in out + err
diagnosed = status == 1 and not crashed
sys.exit(0 if diagnosed else 1)
