"""Shared by the C12 repro scripts: run the real mypy (from $VERIF_REPO, default /repo) on a program."""
import os
import shutil
import sys
import tempfile

REPO = os.environ.get("VERIF_REPO", "/repo")
sys.path.insert(0, REPO)


def run_mypy(src: str, *flags: str) -> tuple[str, str, int]:
    """Fresh `python -m mypy` on the program (all output captured, including INTERNAL ERROR reports)."""
    import subprocess
    d = tempfile.mkdtemp(prefix="c12-repro-", dir=os.environ.get("VERIF_WORK", "/var/tmp"))
    try:
        p = os.path.join(d, "prog.py")
        with open(p, "w") as f:
            f.write(src)
        env = dict(os.environ, PYTHONPATH=REPO)
        r = subprocess.run([sys.executable, "-m", "mypy", "--no-error-summary", "--cache-dir", os.devnull, *flags, "prog.py"],
                           cwd=d, env=env, capture_output=True, text=True, timeout=300)
        return r.stdout, r.stderr, r.returncode
    finally:
        shutil.rmtree(d, ignore_errors=True)


def cpython_raises(src: str, exc: type = TypeError) -> str | None:
    """Execute the same program in CPython; return the message of `exc` if it is raised."""
    try:
        exec(compile(src, "prog.py", "exec"), {"__name__": "prog"})
    except exc as e:  # type: ignore[misc]
        return f"{type(e).__name__}: {e}"
    return None
