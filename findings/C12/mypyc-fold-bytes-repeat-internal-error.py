#!/venv/bin/python
"""C12 constant folding (mypyc), key fold:internal-error:Overflow|MemoryError@constant_fold_binary_op_extended.

mypyc.irbuild.constant_fold.constant_fold_binary_op_extended folds `bytes * int` without a size guard: the real function
raises OverflowError (and the real IR build then stops with "internal mypyc error") where CPython raises at run time.
exit 1 = defect present."""
import sys
from _common import REPO  # noqa: F401  (puts the repository under test on sys.path)
from mypyc.irbuild.constant_fold import constant_fold_binary_op_extended

try:
    r = constant_fold_binary_op_extended("*", b"a", 100000000000000000000)
    print("folded to", type(r).__name__ if r is not None else None, "(no exception)")
    sys.exit(0)
except (OverflowError, MemoryError) as e:
    print(f"constant_fold_binary_op_extended('*', b'a', 10**20) raised {type(e).__name__}: {e}")
    sys.exit(1)
