#!/venv/bin/python
"""C12 constant folding, keys fold:mypy:wrong-type:bool-for-int:op=unary+:operand=bool (and fold:mypyc:... - same function).

mypy.constant_fold.constant_fold_unary_op returns the operand unchanged for unary plus, so `+True` folds to the bool
True; CPython evaluates `+True` to the int 1. Visible as `Literal[True]?` for a Final. exit 1 = defect present."""
import sys
from _common import run_mypy

SRC = '''
from typing import Final
X: Final = +True
reveal_type(X)
'''
out, err, status = run_mypy(SRC)
print("CPython: +True ->", repr(+True))
print("mypy   :", out.strip())
sys.exit(1 if "Literal[True]" in out else 0)
