#!/venv/bin/python
"""C12 call binding, key call-binding:false-accept:multiple-values-for-keyword-argument:lands-in=**kwargs:via=**TypedDict+keyword.

The same keyword supplied twice (explicitly and through a total **TypedDict) is not diagnosed when the name ends up in
the callee's **kwargs: ExpressionChecker.check_argument_count looks for duplicates only on non-star formals.
CPython: "got multiple values for keyword argument". exit 1 = defect present."""
import sys
from _common import cpython_raises, run_mypy

SRC = '''
from typing import TypedDict
class TD(TypedDict):
    z: int
d: TD = {"z": 1}
def f(**kw: int) -> None: ...
f(z=1, **d)
'''
rt = cpython_raises(SRC)
out, err, status = run_mypy(SRC)
print("CPython:", rt)
print("mypy   :", (out + err).strip() or "<no diagnostic>")
assert rt is not None, "CPython is expected to reject the call"
diagnosed = status == 1 and "INTERNAL ERROR" not in out + err and "error:" in out
sys.exit(0 if diagnosed else 1)
