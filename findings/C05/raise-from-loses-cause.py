#!/venv/bin/python
"""C05: `raise ValueError(...) from e` inside an except handler: the exception caught further out has __cause__ None in
compiled code (CPython: the original exception).  exit 1 = defect present."""
import os, sys
sys.path.insert(0, os.path.dirname(os.path.abspath(__file__)))
from _repro_lib import both, report

SRC = '''
def f(n: int) -> str:
    try:
        try:
            return str(1 // n)
        except ZeroDivisionError as e:
            raise ValueError('wrapped') from e
    except ValueError as v:
        return type(v.__cause__).__name__ + '/' + type(v.__context__).__name__ + '/' + str(v.__suppress_context__)

def g(n: int) -> str:
    try:
        raise ValueError('x') from KeyError('k')
    except ValueError as v:
        return type(v.__cause__).__name__
'''
report(both(SRC, ["f(0)", "g(0)"]), lambda a, b: a[:2] != b[:2])
