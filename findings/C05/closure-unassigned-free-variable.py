#!/venv/bin/python
"""C05: a nested function reading a variable of the enclosing function that was never assigned raises
AttributeError("attribute 'x' of 'f_env' undefined") in compiled code; CPython raises NameError.  exit 1 = defect present."""
import os, sys
sys.path.insert(0, os.path.dirname(os.path.abspath(__file__)))
from _repro_lib import both, report

SRC = '''
def f(c: bool) -> str:
    def get() -> str:
        return str(x)
    if c:
        x: int = 3
    return get()
'''
report(both(SRC, ["f(False)", "f(True)"]), lambda a, b: a[:2] != b[:2])
