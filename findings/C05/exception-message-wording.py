#!/venv/bin/python
"""C05 (messages): same exception type, different message text than CPython 3.12 for
  * UnboundLocalError (unassigned local), * AttributeError (unassigned attribute of a native class),
  * ValueError (star-unpacking too few values), * ValueError (list.index of a missing value), * IndexError (str index out of range).
exit 1 = at least one message differs."""
import os, sys
sys.path.insert(0, os.path.dirname(os.path.abspath(__file__)))
from _repro_lib import both, report

SRC = '''
class C:
    b: int
    def __init__(self) -> None:
        self.a = 1

def local(c: bool) -> int:
    if c:
        x = 1
    return x

def attr() -> int:
    return C().b

def unpack(xs: list[int]) -> int:
    a, *rest = xs
    return a

def index(xs: list[int], v: int) -> int:
    return xs.index(v)

def stridx(s: str, i: int) -> str:
    return s[i]
'''
report(both(SRC, ["local(False)", "attr()", "unpack([])", "index([1], 5)", "stridx('ab', 7)"]), lambda a, b: a[:3] != b[:3])
