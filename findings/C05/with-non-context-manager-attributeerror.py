#!/venv/bin/python
"""C05: `with x:` where x (typed Any) is not a context manager raises AttributeError("type object 'int' has no attribute
'__exit__'") in compiled code; CPython >= 3.11 raises TypeError("'int' object does not support the context manager
protocol").  exit 1 = defect present."""
import os, sys
sys.path.insert(0, os.path.dirname(os.path.abspath(__file__)))
from _repro_lib import both, report

SRC = '''
from typing import Any

def f(x: Any) -> int:
    with x:
        return 1
'''
report(both(SRC, ["f(5)"]), lambda a, b: a[:2] != b[:2])
