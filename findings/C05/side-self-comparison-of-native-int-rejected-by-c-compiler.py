#!/venv/bin/python
"""Side finding (outside C05's statement: the build fails): comparing a fixed-width native int (or float/bool) variable with
itself (`a == a`, accepted by mypy) is emitted as a C self-comparison; mypycify passes -Werror and gcc 12 rejects it
(-Werror=tautological-compare), so the whole module fails to build.  exit 1 = defect present."""
import os, shutil, sys
sys.path.insert(0, os.path.dirname(os.path.abspath(__file__)))
from _repro_lib import build

SRC = '''
from mypy_extensions import i64

def f(a: i64) -> int:
    if a == a:
        return 1
    return 0
'''
wd, ok, log = build(SRC, must_build=False)
shutil.rmtree(wd, ignore_errors=True)
bad = (not ok) and "tautological-compare" in log
print(log[-600:] if not ok else "compiled")
print("defect present" if bad else "defect absent")
sys.exit(1 if bad else 0)
