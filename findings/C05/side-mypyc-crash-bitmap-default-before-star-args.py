#!/venv/bin/python
"""Side finding (outside C05's statement: the program is accepted by mypy but mypyc itself fails, so there is nothing to
compare): a function with a float / fixed-width-int default followed by *args, **kwargs or a keyword-only parameter
crashes mypyc in mypyc/ir/func_ir.py get_text_signature with
ValueError('non-default argument follows default argument').  Cause: the hidden trailing `__bitmap` argument is
positional-only, and the pre-scan for positional-only parameters therefore marks every earlier parameter (including
*args) as positional-only.  exit 1 = defect present."""
import os, sys
sys.path.insert(0, os.path.dirname(os.path.abspath(__file__)))
from _repro_lib import build
import shutil

SRC = '''
def f(p0: int, d0: float = 5.0, *rest: int) -> str:
    return str(p0)
'''
wd, ok, log = build(SRC, must_build=False)
shutil.rmtree(wd, ignore_errors=True)
bad = (not ok) and "non-default argument follows default argument" in log
print(log[-600:] if not ok else "compiled")
print("defect present" if bad else "defect absent")
sys.exit(1 if bad else 0)
