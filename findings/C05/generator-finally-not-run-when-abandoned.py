#!/venv/bin/python
"""C05: a compiled generator that is abandoned while suspended inside try/finally (consumer breaks out of the loop and
drops it) never runs its finally blocks; CPython closes the generator when it is deallocated, which runs them.
exit 1 = defect present."""
import os, sys
sys.path.insert(0, os.path.dirname(os.path.abspath(__file__)))
from _repro_lib import both, report

SRC = '''
from typing import Iterator

def gen(xs: list[int]) -> Iterator[int]:
    try:
        for x in xs:
            try:
                yield x
            finally:
                print('inner', x)
    finally:
        print('cleanup')

def consume(xs: list[int], stop: int) -> list[int]:
    out: list[int] = []
    for x in gen(xs):
        out.append(x)
        if len(out) == stop:
            break
    return out
'''
report(both(SRC, ["consume([1, 2, 3], 2)", "consume([1, 2, 3], 9)"]), lambda a, b: a != b)
