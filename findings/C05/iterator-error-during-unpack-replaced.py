#!/venv/bin/python
"""C05: unpacking `a, b, c = it` where `it` is an arbitrary iterable whose __next__ raises: compiled code replaces the
exception raised by the iterator with ValueError('not enough values to unpack'); CPython propagates the iterator's own
exception.  exit 1 = defect present."""
import os, sys
sys.path.insert(0, os.path.dirname(os.path.abspath(__file__)))
from _repro_lib import both, report

SRC = '''
from typing import Any, Iterator

def gen(n: int) -> Iterator[int]:
    yield 1
    if n:
        raise KeyError('from the iterator')
    yield 2
    yield 3

def unpack(x: Any) -> int:
    a, b, c = x
    return a + b + c

def f(n: int) -> int:
    return unpack(gen(n))
'''
report(both(SRC, ["f(1)", "f(0)"]), lambda a, b: a[:2] != b[:2])
