#!/venv/bin/python
"""C05: a compiled delegating generator (`r = yield from sub()`) into which an exception was thrown (forwarded to the
sub-generator, which handled it and yielded again) raises that OLD exception out of a later close(); CPython's close()
returns normally.  Closing the sub-generator directly is fine.
keys: value:generator:protocol:U_drive(0, 1), value:generator:protocol:U_drive(1, 1).   exit 1 = defect present."""
import os, sys
sys.path.insert(0, os.path.dirname(os.path.abspath(__file__)))
from _repro_lib import both, report

SRC = '''
from typing import Generator

def sub(log: list[str]) -> Generator[int, None, str]:
    try:
        yield 1
    except ValueError as e:
        log.append('sub caught ' + str(e))
        yield 3
    finally:
        log.append('sub finally')
    return 'done'

def plain(log: list[str]) -> str:
    g = sub(log)
    next(g)
    g.throw(ValueError('boom'))
    try:
        g.close()
    except ValueError as e:
        return 'close() raised ValueError ' + str(e)
    return 'closed'

def outer(log: list[str]) -> Generator[int, None, str]:
    r = yield from sub(log)
    return r

def delegating(log: list[str]) -> str:
    g = outer(log)
    next(g)
    g.throw(ValueError('boom'))
    try:
        g.close()
    except ValueError as e:
        return 'close() raised ValueError ' + str(e)
    return 'closed'
'''
report(both(SRC, ["plain([])", "delegating([])"]), lambda a, b: a[:2] != b[:2])
