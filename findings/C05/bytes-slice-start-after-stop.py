#!/venv/bin/python
"""C05: bytes slicing with start > stop raises SystemError('Negative size passed to PyBytes_FromStringAndSize') in
compiled code; CPython returns b''.  exit 1 = defect present."""
import os, sys
sys.path.insert(0, os.path.dirname(os.path.abspath(__file__)))
from _repro_lib import both, report

SRC = '''
def sl(b: bytes, i: int, j: int) -> bytes:
    return b[i:j]
'''
report(both(SRC, ["sl(b'abcd', 7, 2)", "sl(b'abcd', 3, 1)", "sl(b'abcd', 1, 3)", "sl(b'abcd', -1, -3)"]), lambda a, b: a[:2] != b[:2])
