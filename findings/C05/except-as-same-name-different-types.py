#!/venv/bin/python
"""C05: two `except ... as e` clauses of one try statement that bind the same name to different exception classes:
compiled code types the variable after the first clause and raises TypeError('X2 object expected; got X') when the second
handler is entered; CPython (and mypy) treat each binding separately.  exit 1 = defect present."""
import os, sys
sys.path.insert(0, os.path.dirname(os.path.abspath(__file__)))
from _repro_lib import both, report

SRC = '''
class Err(Exception):
    def __init__(self, code: int, msg: str) -> None:
        super().__init__(msg)
        self.code = code

class Err2(Err):
    pass

def f(n: int) -> str:
    try:
        if n < 0:
            raise Err(n, 'negative')
        if n == 0:
            raise Err2(0, 'zero')
        return 'ok'
    except Err2 as e:
        return 'E2:' + str(e.code)
    except Err as e:
        return 'E:' + str(e.code)
'''
report(both(SRC, ["f(-5)", "f(0)", "f(1)"]), lambda a, b: a[:2] != b[:2])
