#!/venv/bin/python
"""C05 (and C-API contract): `a, b, c = it` for an arbitrary iterable: after the third item CPython calls next() once more
to detect "too many values"; when that call raises an exception other than StopIteration CPython propagates it.  Compiled
code treats the NULL result as exhaustion and continues with the error indicator still set: the next C-API call fails with
SystemError('... returned a result with an exception set') (or the pending exception surfaces at an unrelated place).
exit 1 = defect present."""
import os, sys
sys.path.insert(0, os.path.dirname(os.path.abspath(__file__)))
from _repro_lib import both, report

SRC = '''
from typing import Any

class It:
    def __init__(self, fail_at: int) -> None:
        self.i = 0
        self.fail_at = fail_at
    def __iter__(self) -> 'It':
        return self
    def __next__(self) -> object:
        self.i += 1
        if self.i == self.fail_at:
            raise KeyError('from the iterator')
        if self.i > 3:
            raise StopIteration
        return self.i

def unpack(x: Any) -> str:
    a, b, c = x
    print('unpacked')
    return str(a) + str(b) + str(c)

def f(fail_at: int) -> str:
    return unpack(It(fail_at))
'''
report(both(SRC, ["f(4)", "f(9)"]), lambda a, b: a[:2] != b[:2])
