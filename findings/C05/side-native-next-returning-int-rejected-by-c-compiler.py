#!/venv/bin/python
"""Side finding (outside C05's statement: the build fails): a native class whose __next__ is annotated to return an
unboxed type (int) makes mypyc emit `.tp_iternext = CPyDef_..._____next__` with the *native* function (returning
CPyTagged) instead of a wrapper; gcc 12 rejects it (-Werror=incompatible-pointer-types).  exit 1 = defect present."""
import os, sys
sys.path.insert(0, os.path.dirname(os.path.abspath(__file__)))
from _repro_lib import build
import shutil

SRC = '''
class It:
    def __init__(self) -> None:
        self.i = 0
    def __iter__(self) -> 'It':
        return self
    def __next__(self) -> int:
        if self.i > 2:
            raise StopIteration
        self.i += 1
        return self.i
'''
wd, ok, log = build(SRC, must_build=False)
shutil.rmtree(wd, ignore_errors=True)
bad = (not ok) and "incompatible-pointer-types" in log
print(log[-800:] if not ok else "compiled")
print("defect present" if bad else "defect absent")
sys.exit(1 if bad else 0)
