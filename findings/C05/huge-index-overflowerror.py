#!/venv/bin/python
"""C05: indexing a list/str/tuple with an int that does not fit a machine word raises OverflowError (ValueError for bytes) in compiled code,
IndexError in CPython (an `except IndexError:` handler therefore behaves differently).  exit 1 = defect present."""
import os, sys
sys.path.insert(0, os.path.dirname(os.path.abspath(__file__)))
from _repro_lib import both, report

SRC = '''
def li(l: list[int], i: int) -> int:
    try:
        return l[i]
    except IndexError:
        return -1

def st(s: str, i: int) -> str:
    return s[i]

def by(b: bytes, i: int) -> int:
    return b[i]
'''
report(both(SRC, ["li([1, 2], 2**64)", "li([1, 2], -2**63 - 1)", "li([1, 2], 5)", "st('ab', 2**70)", "by(b'ab', 2**63)"]), lambda a, b: a[:2] != b[:2])
