#!/venv/bin/python
"""C05: typeshed types sum(list[float]) as `float | int`; using that value in arithmetic (sum(xs) + sum(xs)) makes compiled code
cast the operands to `int` and raise TypeError('int object expected; got float'); CPython returns the float sum.
exit 1 = defect present."""
import os, sys
sys.path.insert(0, os.path.dirname(os.path.abspath(__file__)))
from _repro_lib import both, report

SRC = '''
def twice(xs: list[float]) -> float:
    return sum(xs) + sum(xs)

def once(xs: list[float]) -> float:
    return sum(xs)

def show(xs: list[float]) -> str:
    return str(sum(xs) + 1)
'''
report(both(SRC, ["twice([1.5, 2.0])", "once([1.5, 2.0])", "show([1.5])"]), lambda a, b: a[:2] != b[:2])
