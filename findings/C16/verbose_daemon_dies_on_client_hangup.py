#!/venv/bin/python
"""A daemon started with -v streams its log lines to the client while a command runs (sys.stderr is a
WriteToConn). If the client goes away before the reply (Ctrl-C during a check), the write raises
BrokenPipeError inside the command; only the FINAL send is protected by `except OSError: pass`, so the daemon
reports a crash to nobody and exits.
key: daemon-died:on-faulty-connection:PeerClosedError@ipc.py:write_bytes:via=run_command

Standalone: /venv/bin/python verbose_daemon_dies_on_client_hangup.py   (VERIF_REPO=<dir> to test another checkout)
exit 1 = defect present, 0 = absent, 2 = could not run."""
import ctypes, json, os, shutil, signal, socket, struct, subprocess, sys, tempfile, time

REPO = os.environ.get("VERIF_REPO", "/repo")
ENV = dict(os.environ)
if REPO != "/repo":
    ENV["PYTHONPATH"] = REPO
ctypes.CDLL(None).prctl(36, 1, 0, 0, 0)  # child sub-reaper: the daemonised grandchild becomes our child, so waitpid sees its exit
ROOT = tempfile.mkdtemp(prefix="c16-repro-", dir="/var/tmp")
ENV["TMPDIR"] = os.path.join(ROOT, "t")
os.makedirs(ENV["TMPDIR"])
ST = os.path.join(ROOT, "status.json")
PID = None


def dmypy(*args):
    p = subprocess.run([sys.executable, "-m", "mypy.dmypy", "--status-file", ST, *args], cwd=ROOT, env=ENV,
                       capture_output=True, text=True, timeout=300)
    return p.returncode, p.stdout + p.stderr


def start(*flags):
    global PID
    with open(os.path.join(ROOT, "main.py"), "w") as f:
        f.write("x: int = 'a'\n")
    rc, out = dmypy("start", "--log-file", os.path.join(ROOT, "log"), "--", "--no-error-summary", *flags)
    if rc != 0:
        print("cannot start daemon:", out)
        sys.exit(2)
    PID = json.load(open(ST))["pid"]


def connect():
    s = socket.socket(socket.AF_UNIX)
    s.settimeout(30)
    s.connect(json.load(open(ST))["connection_name"])
    return s


def frame(payload):
    return struct.pack("!L", len(payload)) + payload


def request(**kw):
    return frame(json.dumps(kw).encode())


def read_frames(s):
    buf = b""
    out = []
    try:
        while True:
            more = s.recv(65536)
            if not more:
                break
            buf += more
            while len(buf) >= 4 and len(buf) >= 4 + struct.unpack("!L", buf[:4])[0]:
                n = struct.unpack("!L", buf[:4])[0]
                out.append(json.loads(buf[4:4 + n]))
                buf = buf[4 + n:]
            if out and out[-1].get("final"):
                break
    except OSError:
        pass
    return out


def exited(limit=10.0):
    end = time.monotonic() + limit
    while time.monotonic() < end:
        try:
            if os.waitpid(PID, os.WNOHANG)[0] == PID:
                return True
        except ChildProcessError:
            try:
                if open("/proc/%d/stat" % PID).read().rsplit(")", 1)[1].split()[0] in "ZX":
                    return True
            except OSError:
                return True
        time.sleep(0.02)
    return False


def log():
    try:
        return open(os.path.join(ROOT, "log")).read()[-1500:]
    except OSError:
        return ""


def cleanup():
    try:
        if PID and not exited(0):
            os.kill(PID, signal.SIGKILL)
            exited(5)
    except OSError:
        pass
    shutil.rmtree(ROOT, ignore_errors=True)


def main():
    start("-v")
    rc, out = dmypy("check", "main.py")
    s = connect()
    s.sendall(request(command="recheck", export_types=False, is_tty=False, terminal_width=80))
    s.close()
    time.sleep(0.2)
    if exited(5):
        print("daemon exited; status file exists:", os.path.exists(ST))
        print(log())
        return 1
    rc, out = dmypy("check", "main.py")
    print("daemon alive; later check ->", rc, out.strip()[:200])
    return 0 if rc == 1 and "main.py:1: error" in out else 1

if __name__ == "__main__":
    try:
        rc = main()
    finally:
        cleanup()
    print("DEFECT PRESENT" if rc == 1 else "defect absent" if rc == 0 else "inconclusive")
    sys.exit(rc)
