#!/venv/bin/python
"""C11 keys reload:Parameters.is_ellipsis_args:value:both, reload:UninhabitedType.ambiguous:value:both
(see also partial-special-sig-lost.py).  Fields of types that importers read (Parameters.is_ellipsis_args:
subtypes/expandtype/typeanal; UninhabitedType.ambiguous: checker/checkexpr/applytype) but neither codec stores:
round trip through the real writers/readers."""
import os, sys
REPO = os.environ.get("VERIF_REPO", "/repo")
if REPO != "/repo":
    sys.path.insert(0, REPO)
from librt.internal import ReadBuffer, WriteBuffer
import mypy.nodes
import mypy.types as T
from mypy.util import json_dumps, json_loads

bad = []
cases = [("Parameters.is_ellipsis_args", T.Parameters([T.AnyType(T.TypeOfAny.explicit)] * 2,
                                                      [mypy.nodes.ARG_STAR, mypy.nodes.ARG_STAR2], [None, None], is_ellipsis_args=True),
          "is_ellipsis_args"),
         ("UninhabitedType.ambiguous", T.UninhabitedType(), "ambiguous")]
cases[1][1].ambiguous = True
for name, t, attr in cases:
    j = T.deserialize_type(json_loads(json_dumps(t.serialize())))
    wb = WriteBuffer()
    t.write(wb)
    b = T.read_type(ReadBuffer(wb.getvalue()))
    if getattr(j, attr) is not True or getattr(b, attr) is not True:
        bad.append(f"{name}: live True, JSON reload {getattr(j, attr)}, binary reload {getattr(b, attr)}")
if bad:
    print("DEFECT PRESENT:", *bad, sep="\n  ")
    sys.exit(1)
print("defect absent")
sys.exit(0)
