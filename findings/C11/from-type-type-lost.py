#!/venv/bin/python
"""C11 key reload:CallableType.from_type_type:value:both
join/meet of class objects sets CallableType.from_type_type so that calling an element of e.g. `[B, B2]`
(inferred as list[def () -> A], A abstract) is not reported as instantiating an abstract class.  The flag is in
neither codec, so after `a` is loaded from the cache the importer gets a false
'Cannot instantiate abstract class "A"' that the cold run does not give."""
import os, sys
sys.path.insert(0, os.path.dirname(os.path.abspath(__file__)))
import _coldwarm

files = {"a.py": ("from abc import ABC, abstractmethod\nclass A(ABC):\n    @abstractmethod\n    def f(self) -> None: ...\n"
                  "class B(A):\n    def f(self) -> None: ...\nclass B2(A):\n    def f(self) -> None: ...\ntypes = [B, B2]\n"),
         "main.py": "from a import types\ntypes[0]()\n"}
cold, warm = _coldwarm.run(files)
_coldwarm.verdict("CallableType.from_type_type", cold, warm)
