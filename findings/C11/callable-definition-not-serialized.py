#!/venv/bin/python
"""C11 keys reload:CallableType.definition:cross reference lost:both / ...:cross reference appears:both
CallableType.definition is not serialized.  The fixer re-links it only for the type stored on a function symbol
itself, so (a) a callable type stored elsewhere (variable alias `g = f`, property setter_type) loses it and
(b) synthesized methods that never had one (NamedTuple __new__/_replace) gain one.  messages.find_defining_module
reads it: the note 'Called function defined in "a"' / '"M" defined in "a"' differs between cold and warm runs."""
import os, sys
sys.path.insert(0, os.path.dirname(os.path.abspath(__file__)))
import _coldwarm

files = {"a.py": "from typing import NamedTuple\ndef f(x: int) -> None: ...\ng = f\nclass M(NamedTuple):\n    x: int\n",
         "main.py": "from a import g, M\ng(y=1)\nM(y=1)\n"}
cold, warm = _coldwarm.run(files)
_coldwarm.verdict("CallableType.definition", cold, warm)
