#!/venv/bin/python
"""C11 key reload:TypedDictType.items:dict order:binary
The binary (fixed-format) cache writes TypedDict items through types.write_type_map, which sorts the keys; the
JSON codec keeps declaration order.  After a reload from the binary cache the items of a TypedDict are in
alphabetical order, visible to importers (reveal_type / messages)."""
import os, sys
sys.path.insert(0, os.path.dirname(os.path.abspath(__file__)))
import _coldwarm

files = {"a.py": "from typing import TypedDict\nclass TD(TypedDict):\n    zeta: int\n    alpha: str\ndef f() -> TD: return {'zeta': 1, 'alpha': ''}\n",
         "main.py": "from a import f\nreveal_type(f())\n"}
cold, warm = _coldwarm.run(files)
_coldwarm.verdict("TypedDict item order, binary cache", cold, warm)
