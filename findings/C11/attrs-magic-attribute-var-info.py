#!/venv/bin/python
"""C11 key reload:Var.info:cross reference reset to the enclosing class by fixup:both
The attrs plugin (_add_attrs_magic_attribute) creates the members of the synthesized __<cls>_AttrsAttributes__
class with Var.info = TypeInfo of attr.Attribute; Var.info is not serialized but re-derived by the fixer as the
enclosing class, so the reloaded member says info = the synthesized class."""
import os, sys
sys.path.insert(0, os.path.dirname(os.path.abspath(__file__)))
import _inspect

files = {"a.py": "import attr\n@attr.s(auto_attribs=True)\nclass A:\n    x: int\n",
         "main.py": "import a\n"}


def probe(tree):
    info = tree.names["A"].node
    magic = [n for n in info.names if n.endswith("AttrsAttributes__")][0]
    return info.names[magic].node.names["x"].node.info.fullname


_inspect.verdict("Var.info of attrs magic attribute member", *_inspect.fresh_and_reloaded(files, probe))
