#!/venv/bin/python
"""C11 key reload:SymbolTableNode.cross_ref:redefinition symbol re-links to the first definition:both
A second definition of a name is kept in the class symbol table as '<name>-redefinition' (TypeInfo.get_method
prefers it).  Its node has the fullname of the *first* definition, so SymbolTableNode.serialize/write store it as
a cross reference to that fullname, and after a reload '<name>-redefinition' is the first definition's node."""
import os, sys
sys.path.insert(0, os.path.dirname(os.path.abspath(__file__)))
import _inspect

files = {"a.py": ("from dataclasses import dataclass\n@dataclass(order=True)\nclass C:\n    name: str = 'n'\n"
                  "    def __lt__(self, other: 'C') -> bool: ...   # reported; the generated one is kept as '__lt__-redefinition'\n"),
         "main.py": "import a\n"}


def probe(tree):
    names = tree.names["C"].node.names
    key = [n for n in names if n.startswith("__lt__-redefinition")]
    if not key:
        return "no redefinition symbol"
    return str(names[key[0]].node.type)


_inspect.verdict("type reached through '__lt__-redefinition'", *_inspect.fresh_and_reloaded(files, probe))
