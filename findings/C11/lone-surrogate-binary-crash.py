#!/venv/bin/python
"""C11 key raises:serialize:binary:UnicodeEncodeError@cache.py:write_literal
A string constant with a lone surrogate ("\\ud800", legal Python) ends up in Var.final_value / LiteralType.value.
The JSON codec writes and reloads it; the binary codec (librt write_str, strict UTF-8) raises UnicodeEncodeError
inside State.write_cache, i.e. mypy dies with INTERNAL ERROR as soon as the default (fixed-format) cache is on."""
import os, shutil, subprocess, sys, tempfile

REPO = os.environ.get("VERIF_REPO", "/repo")
d = tempfile.mkdtemp(prefix="c11-repro-", dir="/var/tmp")
try:
    with open(os.path.join(d, "s.py"), "w") as f:
        f.write('from typing import Final\nLONE: Final = "\\ud800 tail"\n')
    env = dict(os.environ, PYTHONPATH=REPO if REPO != "/repo" else "")
    res = {}
    for name, flags in (("binary", []), ("json", ["--no-fixed-format-cache"])):
        p = subprocess.run([sys.executable, "-m", "mypy", "--show-traceback", "--cache-dir", os.path.join(d, "c-" + name), *flags, "s.py"],
                           cwd=d, env=env, capture_output=True, text=True, timeout=600)
        res[name] = (p.returncode, (p.stdout + p.stderr).strip().splitlines()[-1:])
    print(res)
    if res["binary"][0] not in (0, 1) or res["json"][0] not in (0, 1):
        print("DEFECT PRESENT: a module with a lone-surrogate string constant cannot be written to the cache")
        sys.exit(1)
    print("defect absent")
    sys.exit(0)
finally:
    shutil.rmtree(d, ignore_errors=True)
