#!/venv/bin/python
"""C11 key bytes:same-module-two-builds-differ:fresh-typevar-ids
The type of `make = Ctx().make` (bound overloaded generic method) keeps the *fresh* type variable ids that
checkmember allocates from the process-global counter TypeVarId.next_raw_id, and both codecs write the raw id.
The bytes - and therefore the interface hash - of a module then depend on how many fresh ids were allocated
before it was checked: editing only the body of a dependency changes the interface hash of an unchanged dependant
(its dependants are then re-checked for nothing).  Equal interfaces do not give equal interface hashes."""
import os, re, shutil, subprocess, sys, tempfile

REPO = os.environ.get("VERIF_REPO", "/repo")
ZMOD = ("import apre\nfrom typing import TypeVar, overload\nT = TypeVar('T')\nclass Ctx:\n    @overload\n    def make(self, x: T) -> list[T]: ...\n"
        "    @overload\n    def make(self, x: T, y: int) -> set[T]: ...\n    def make(self, x, y=0): ...\nmake = Ctx().make\n")
BODIES = ["def body() -> None:\n    pass\n", "def body() -> None:\n    xs = [1, 2, 3]\n    xs.append(4)\n    ys = {'a': 1}\n    ys.get('a')\n"]
d = tempfile.mkdtemp(prefix="c11-repro-", dir="/var/tmp")
try:
    env = dict(os.environ, PYTHONPATH=REPO if REPO != "/repo" else "")
    hashes = []
    for i, body in enumerate(BODIES):
        with open(os.path.join(d, "zmod.py"), "w") as f:
            f.write(ZMOD)
        with open(os.path.join(d, "apre.py"), "w") as f:
            f.write(body)
        subprocess.run([sys.executable, "-m", "mypy", "--no-fixed-format-cache", "--no-sqlite-cache", "--cache-dir", f"c{i}", "zmod.py"],
                       cwd=d, env=env, capture_output=True, text=True, timeout=600)
        meta = open(os.path.join(d, f"c{i}", "%d.%d" % sys.version_info[:2], "zmod.meta.json")).read()
        hashes.append(re.search(r'"interface_hash":"([0-9a-f]+)"', meta).group(1))
    if hashes[0] != hashes[1]:
        print("DEFECT PRESENT: interface hash of zmod (unchanged source, unchanged interface) after a body-only edit of apre:", *hashes, sep="\n  ")
        sys.exit(1)
    print("defect absent: equal interface hashes", hashes[0])
    sys.exit(0)
finally:
    shutil.rmtree(d, ignore_errors=True)
