"""Shared helper for the C11 repro scripts: cold run, then a warm run in which module `a` is loaded from
the cache while `main` is re-checked; returns the two outputs (lines about main.py only)."""
import os
import shutil
import subprocess
import sys
import tempfile

REPO = os.environ.get("VERIF_REPO", "/repo")


def run(files, flags=()):
    d = tempfile.mkdtemp(prefix="c11-repro-", dir="/var/tmp")
    try:
        for name, text in files.items():
            with open(os.path.join(d, name), "w") as f:
                f.write(text)
            os.utime(os.path.join(d, name), (1_500_000_000, 1_500_000_000))
        env = dict(os.environ)
        env["PYTHONPATH"] = REPO if REPO != "/repo" else ""
        env.pop("MYPYPATH", None)
        outs = []
        for step in (0, 1):
            if step:
                with open(os.path.join(d, "main.py"), "a") as f:
                    f.write("# touched\n")
                os.utime(os.path.join(d, "main.py"), (1_500_000_100, 1_500_000_100))
            p = subprocess.run([sys.executable, "-m", "mypy", "--no-error-summary", "--cache-dir", os.path.join(d, ".cache"),
                                *flags, "main.py"], cwd=d, env=env, capture_output=True, text=True, timeout=600)
            outs.append([ln for ln in p.stdout.splitlines() if ln.startswith("main.py")])
        return outs
    finally:
        shutil.rmtree(d, ignore_errors=True)


def verdict(name, cold, warm):
    if cold != warm:
        print(f"DEFECT PRESENT ({name}): the warm run (module a from the cache) differs from the cold run")
        print("cold:", *cold, sep="\n  ")
        print("warm:", *warm, sep="\n  ")
        sys.exit(1)
    print(f"defect absent ({name}): cold and warm outputs are equal")
    sys.exit(0)
