#!/venv/bin/python
"""C11 key reload:CallableType.special_sig:python type:both
The functools plugin stores the partially applied signature in Instance.extra_attrs['__mypy_partial'] with
special_sig='partial' (read by checkexpr.check_argument_count to allow omitted ParamSpec *args/**kwargs).
CallableType.serialize/write do not store special_sig, so the reloaded type has special_sig=None."""
import os, sys
sys.path.insert(0, os.path.dirname(os.path.abspath(__file__)))
import _inspect

files = {"a.py": "import functools\ndef f(x: int, y: str) -> None: ...\np = functools.partial(f, 1)\n",
         "main.py": "import a\n"}


def probe(tree):
    t = tree.names["p"].node.type
    return t.extra_attrs.attrs["__mypy_partial"].special_sig


_inspect.verdict("special_sig of functools.partial signature", *_inspect.fresh_and_reloaded(files, probe))
