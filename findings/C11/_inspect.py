"""Shared helper: build `main` (which imports `a`) twice in-process with the real mypy.build; the second time
`a` comes from the cache.  Returns probe(tree of a) for the fresh and for the reloaded tree."""
import os
import shutil
import sys
import tempfile

REPO = os.environ.get("VERIF_REPO", "/repo")
if REPO != "/repo":
    sys.path.insert(0, REPO)


def fresh_and_reloaded(files, probe, fixed_format=True):
    from mypy import build
    from mypy.modulefinder import BuildSource
    from mypy.options import Options

    d = tempfile.mkdtemp(prefix="c11-repro-", dir="/var/tmp")
    old = os.getcwd()
    vals = []
    try:
        os.chdir(d)
        for name, text in files.items():
            with open(name, "w") as f:
                f.write(text)
            os.utime(name, (1_500_000_000, 1_500_000_000))
        for step in (0, 1):
            if step:
                with open("main.py", "a") as f:
                    f.write("# touched\n")
                os.utime("main.py", (1_500_000_100, 1_500_000_100))
            options = Options()
            options.cache_dir = os.path.join(d, ".cache")
            options.incremental = True
            options.fixed_format_cache = fixed_format
            options.show_traceback = True
            res = build.build([BuildSource("main.py", "main", None)], options)
            tree = res.files["a"]
            assert tree.is_cache_skeleton == bool(step), "harness: module a was not in the expected state"
            vals.append(probe(tree))
        return vals
    finally:
        os.chdir(old)
        shutil.rmtree(d, ignore_errors=True)


def verdict(name, fresh, reloaded):
    if fresh != reloaded:
        print(f"DEFECT PRESENT ({name}): fresh tree: {fresh!r}; tree reloaded from the cache: {reloaded!r}")
        sys.exit(1)
    print(f"defect absent ({name}): {fresh!r} in both")
    sys.exit(0)
