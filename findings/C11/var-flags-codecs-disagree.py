#!/venv/bin/python
"""C11 keys flagvec:Var.is_self:live-vs-binary, flagvec:Var.is_cls:live-vs-binary, flagvec:Var.is_inferred:live-vs-json
VAR_FLAGS lists is_self and is_cls, the JSON codec stores them, Var.write/Var.read (binary) do not.
Var.deserialize (JSON) can only switch flags on, but Var.__init__ defaults is_inferred to `type is None`, so a Var
without a type and is_inferred=False comes back with is_inferred=True from JSON and False from binary.
(Latent: no exported Var of today's analyser carries these combinations.)"""
import os, sys
REPO = os.environ.get("VERIF_REPO", "/repo")
if REPO != "/repo":
    sys.path.insert(0, REPO)
from librt.internal import ReadBuffer, WriteBuffer
import mypy.types
from mypy.cache import read_tag
from mypy.nodes import VAR_FLAGS, Var, read_symbol
from mypy.util import json_dumps, json_loads

bad = []
for flag, value in [("is_self", True), ("is_cls", True), ("is_inferred", False)]:
    v = Var("x")
    v._fullname = "m.x"
    setattr(v, flag, value)
    j = Var.deserialize(json_loads(json_dumps(v.serialize())))
    wb = WriteBuffer()
    v.write(wb)
    rb = ReadBuffer(wb.getvalue())
    b = read_symbol(rb, read_tag(rb))
    got = (getattr(j, flag), getattr(b, flag))
    if got != (value, value):
        bad.append(f"{flag}={value}: JSON reload {got[0]}, binary reload {got[1]} (in VAR_FLAGS: {flag in VAR_FLAGS})")
if bad:
    print("DEFECT PRESENT:", *bad, sep="\n  ")
    sys.exit(1)
print("defect absent: both codecs keep is_self, is_cls, is_inferred")
sys.exit(0)
