#!/venv/bin/python
"""C11 key reload:Type.can_be_false:effective truthiness:both
`x = n or "fallback"` infers Union[int (can_be_false=False), str] for x; the explicit can_be_true/can_be_false
restriction set by true_only()/false_only() is not serialized, so after a reload the int item can be falsy again
and importers narrow differently."""
import os, sys
sys.path.insert(0, os.path.dirname(os.path.abspath(__file__)))
import _coldwarm

files = {"a.py": "n = 3\nx = n or 'fallback'\n",
         "main.py": "from a import x\nif not x:\n    reveal_type(x)\n"}
cold, warm = _coldwarm.run(files)
_coldwarm.verdict("truthiness restriction", cold, warm)
