#!/venv/bin/python
"""Side finding (outside C06's dynamic statement: mypyc itself fails, nothing is executed): a list comprehension in code that
follows a try statement whose body and handler both always raise makes mypyc/transform/refcount.py
after_branch_decrefs raise KeyError (`ordering[r]` for a CallC that is live on a branch edge but was never numbered):
"this is an internal mypyc error".  mypy accepts the program (unreachable code is not an error).  exit 1 = defect present."""
import os, shutil, sys
sys.path.insert(0, os.path.dirname(os.path.abspath(__file__)))
from _repro_lib import build

SRC = '''
def f(a: str) -> int:
    try:
        raise ValueError(a)
    except ArithmeticError:
        raise
    return len([k for k in [1]])
'''
wd, ok, log = build(SRC, must_build=False)
shutil.rmtree(wd, ignore_errors=True)
bad = (not ok) and "KeyError" in log and "internal mypyc error" in log
print(log[-700:] if not ok else "compiled")
print("defect present" if bad else "defect absent")
sys.exit(1 if bad else 0)
