"""Shared by the repro scripts in this directory: compile a source with the repository's mypyc, then evaluate the same
expressions against the compiled extension and against the interpreted source (fresh processes)."""
import json
import os
import shutil
import subprocess
import sys
import tempfile

PY = os.environ.get("VERIF_PY", "/venv/bin/python")
REPO = os.environ.get("VERIF_REPO", "/repo")

PROBE = r'''
import io, json, sys
sys.path.insert(0, sys.argv[1])
import native
out = []
for expr in json.loads(sys.argv[2]):
    buf = io.StringIO(); old = sys.stdout; sys.stdout = buf
    try:
        try:
            r = ["value", repr(eval(expr, vars(native)))]
        except BaseException as e:
            r = ["exc", type(e).__name__, str(e)]
    finally:
        sys.stdout = old
    out.append(r + [buf.getvalue()])
print(json.dumps(out))
'''


def env():
    e = dict(os.environ)
    e["PYTHONPATH"] = REPO if REPO != "/repo" else ""
    e.pop("CFLAGS", None)
    return e


def build(source, opt="0", must_build=True):
    """Returns (workdir, ok, log). The caller removes workdir."""
    wd = tempfile.mkdtemp(prefix="verif-repro-", dir="/var/tmp")
    os.makedirs(os.path.join(wd, "c"))
    os.makedirs(os.path.join(wd, "i"))
    for d in ("c", "i"):
        with open(os.path.join(wd, d, "native.py"), "w") as f:
            f.write(source)
    setup = ("from setuptools import setup\nfrom mypyc.build import mypycify\n"
             f"setup(name='x', ext_modules=mypycify(['native.py'], opt_level={opt!r}), script_args=['build_ext', '--inplace', '-q'])\n")
    with open(os.path.join(wd, "c", "setup.py"), "w") as f:
        f.write(setup)
    p = subprocess.run([PY, "setup.py"], cwd=os.path.join(wd, "c"), env=env(), capture_output=True, text=True)
    ok = p.returncode == 0
    if not ok and must_build:
        print(p.stdout[-2000:], p.stderr[-3000:])
        shutil.rmtree(wd, ignore_errors=True)
        print("INCONCLUSIVE: the program did not compile")
        sys.exit(2)
    return wd, ok, p.stdout + p.stderr


def both(source, exprs, opt="0"):
    """[(expr, interpreted result, compiled result)]; result = ["value", repr, stdout] | ["exc", type, msg, stdout]"""
    wd, _, _ = build(source, opt)
    try:
        res = {}
        for d in ("i", "c"):
            p = subprocess.run([PY, "-c", PROBE, os.path.join(wd, d), json.dumps(exprs)], env=env(), capture_output=True, text=True)
            if p.returncode != 0:
                res[d] = [["process", p.returncode, p.stderr[-500:], ""]] * len(exprs)
            else:
                res[d] = json.loads(p.stdout.strip().splitlines()[-1])
        return [(e, res["i"][k], res["c"][k]) for k, e in enumerate(exprs)]
    finally:
        shutil.rmtree(wd, ignore_errors=True)


def report(rows, differs):
    """differs(interp, compiled) -> bool. Exit 1 if any row shows the defect."""
    bad = 0
    for e, a, b in rows:
        d = differs(a, b)
        bad += bool(d)
        print(("DEFECT " if d else "ok     ") + e + "\n    interpreted: " + str(a) + "\n    compiled:    " + str(b))
    print("defect present" if bad else "defect absent")
    sys.exit(1 if bad else 0)
