#!/venv/bin/python
"""C05/C06: `del x` of a local whose type has an overlapping error value (float, i64, ...) does not make it undefined:
the next read returns the sentinel (-113 / -113.0) instead of raising UnboundLocalError as CPython does.
exit 1 = defect present, 0 = absent."""
import os, sys
sys.path.insert(0, os.path.dirname(os.path.abspath(__file__)))
from _repro_lib import both, report

SRC = '''
from mypy_extensions import i64

def del_float(c: bool) -> str:
    x: float = 1.5
    if c:
        del x
    return str(x)

def del_i64(c: bool) -> str:
    x: i64 = 7
    if c:
        del x
    return str(x)

def del_int(c: bool) -> str:
    x: int = 7
    if c:
        del x
    return str(x)
'''
report(both(SRC, ["del_float(True)", "del_i64(True)", "del_int(True)", "del_float(False)"]), lambda a, b: a[:2] != b[:2])
