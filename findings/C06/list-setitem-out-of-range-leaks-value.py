#!/venv/bin/python
"""C06: `lst[i] = v` with an out-of-range index leaks one reference to v: the primitive is declared to steal the value
(primitives/list_ops.py: steals=[False, False, True]) so compiled code increfs v before the call, but lib-rt
CPyList_SetItem / CPyList_SetItemInt64 return false on the IndexError path without releasing it.  exit 1 = defect present."""
import os, sys
sys.path.insert(0, os.path.dirname(os.path.abspath(__file__)))
from _repro_lib import both, report

SRC = '''
import sys
from mypy_extensions import i64

def setitem(box: list[list[int]], i: int, v: list[int]) -> bool:
    try:
        box[i] = v
    except IndexError:
        return False
    return True

def setitem64(box: list[list[int]], i: i64, v: list[int]) -> bool:
    try:
        box[i] = v
    except IndexError:
        return False
    return True

def leak(which: int, index: int) -> int:
    v = [1, 2, 3]
    box = [[0]]
    before = sys.getrefcount(v)
    for _ in range(10):
        if which == 0:
            setitem(box, index, v)
        else:
            setitem64(box, index, v)
    box.clear()
    return sys.getrefcount(v) - before
'''
report(both(SRC, ["leak(0, 5)", "leak(0, -7)", "leak(1, 5)", "leak(0, 0)"]), lambda a, b: a[:2] != b[:2])
