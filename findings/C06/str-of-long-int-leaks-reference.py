#!/venv/bin/python
"""C06: str(x) / repr(x) / '%d' % x on an `int` that does not fit a tagged short int (|x| >= 2**62) leaks one reference to
the int object per call: lib-rt CPyTagged_Str (misc_ops.c) passes the *new* reference returned by CPyTagged_AsObject to
PyObject_Str and never releases it (CPyTagged_AsciiBytes has the same shape).  exit 1 = defect present."""
import os, sys
sys.path.insert(0, os.path.dirname(os.path.abspath(__file__)))
from _repro_lib import both, report

SRC = '''
import sys

def s(y: int) -> str:
    return str(y)

def r(y: int) -> str:
    return repr(y)
'''
# the refcount is measured by the (interpreted) probe around ten calls into the module under test
M = "(lambda x, r0: ([{f}(x) for _ in range(10)], sys.getrefcount(x) - r0)[1])(*(lambda x: (x, sys.getrefcount(x)))(int('{v}')))"
report(both(SRC, [M.format(f="s", v="4611686018427387904"), M.format(f="r", v="-4611686018427387905"), M.format(f="s", v="4611686018427387903")]),
       lambda a, b: a[:2] != b[:2])
