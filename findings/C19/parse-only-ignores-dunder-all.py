"""--parse-only on file arguments does not know __all__: the stub has no __all__, exports everything public and omits underscore names that __all__ makes public.

Exit status 1 = defect present, 0 = absent, 2 = inconclusive (preconditions of the input failed).
Mechanism keys:
  stubtest:parse-only:__all__:is not present in stub
  structure:parse-only:missing:private-name-listed-in-__all__
  stubtest:parse-only:private-name-listed-in-__all__:is not present in stub
"""
import os
import sys

sys.path.insert(0, os.path.dirname(os.path.abspath(__file__)))
from _c19repro import run

FILES = '''__all__ = ["shown", "_also_public"]

def shown() -> int:
    return 1

def _also_public() -> int:
    return 2

def helper() -> int:
    return 3
'''
EXPECT = ['stubtest:parse-only:__all__:is not present in stub',
 'structure:parse-only:missing:private-name-listed-in-__all__',
 'stubtest:parse-only:private-name-listed-in-__all__:is not present in stub']
run(FILES, 'po', EXPECT, what=__doc__.splitlines()[0])
