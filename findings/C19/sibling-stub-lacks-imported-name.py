"""A module's stub omits a name that is not in its __all__, but the package __init__ stub still imports it from there.

Exit status 1 = defect present, 0 = absent, 2 = inconclusive (preconditions of the input failed).
Mechanism keys:
  stub-typecheck:semantic:attr-defined:Module '_' has no attribute '_':import
"""
import os
import sys

sys.path.insert(0, os.path.dirname(os.path.abspath(__file__)))
from _c19repro import run

FILES = {'c19pkg/__init__.py': 'from .core import listed, unlisted\n',
 'c19pkg/core.py': '__all__ = ["listed"]\n'
                   '\n'
                   'def listed() -> int:\n'
                   '    return 1\n'
                   '\n'
                   'def unlisted() -> int:\n'
                   '    return 2\n'}
EXPECT = ['stub-typecheck:semantic:attr-defined:Module "_" has no attribute "_":import']
run(FILES, 'sem', EXPECT, what=__doc__.splitlines()[0])
