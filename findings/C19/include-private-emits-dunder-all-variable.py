"""--include-private (parse-only, file arguments) emits `__all__` as an ordinary variable without a value; stubtest then sees a stub that exports nothing.

Exit status 1 = defect present, 0 = absent, 2 = inconclusive (preconditions of the input failed).
Mechanism keys:
  stubtest:parse-only:__all__:names exported from the stub do not correspond to the names exported at runtime. This is probably due to thing
"""
import os
import sys

sys.path.insert(0, os.path.dirname(os.path.abspath(__file__)))
from _c19repro import run

FILES = '''__all__ = ["f"]

def f() -> int:
    return 1
'''
EXPECT = ['stubtest:parse-only:__all__:names exported from the stub do not correspond to the names exported at '
 'runtime. This is probably due to thing']
run(FILES, 'po', EXPECT, flags=('--include-private',), what=__doc__.splitlines()[0])
