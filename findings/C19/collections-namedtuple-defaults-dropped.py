"""`namedtuple(..., defaults=...)` is converted to a NamedTuple class without the defaults.

Exit status 1 = defect present, 0 = absent, 2 = inconclusive (preconditions of the input failed).
Mechanism keys:
  stubtest:parse-only:collections-namedtuple.__new__:is inconsistent, runtime parameter '_' has a default value but stub parameter does not
  stubtest:semantic:collections-namedtuple.__new__:is inconsistent, runtime parameter '_' has a default value but stub parameter does not
"""
import os
import sys

sys.path.insert(0, os.path.dirname(os.path.abspath(__file__)))
from _c19repro import run

FILES = '''from collections import namedtuple

P = namedtuple("P", "x y", defaults=(0,))
'''
EXPECT = ['stubtest:parse-only:collections-namedtuple.__new__:is inconsistent, runtime parameter "_" has a default '
 'value but stub parameter does not',
 'stubtest:semantic:collections-namedtuple.__new__:is inconsistent, runtime parameter "_" has a default '
 'value but stub parameter does not']
run(FILES, ['po', 'sem'], EXPECT, what=__doc__.splitlines()[0])
