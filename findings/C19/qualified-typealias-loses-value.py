"""`X: t.TypeAlias = ...` (module-qualified TypeAlias) is emitted as a bare variable `X: t.TypeAlias` without its value.

Exit status 1 = defect present, 0 = absent, 2 = inconclusive (preconditions of the input failed).
Mechanism keys:
  stub-typecheck:parse-only:valid-type:Invalid type alias: expression is not a valid type:type-alias
  stub-typecheck:semantic:valid-type:Invalid type alias: expression is not a valid type:type-alias
"""
import os
import sys

sys.path.insert(0, os.path.dirname(os.path.abspath(__file__)))
from _c19repro import run

FILES = '''import typing as t

Alias: t.TypeAlias = t.List[int]
'''
EXPECT = ['stub-typecheck:parse-only:valid-type:Invalid type alias: expression is not a valid type:type-alias',
 'stub-typecheck:semantic:valid-type:Invalid type alias: expression is not a valid type:type-alias']
run(FILES, ['po', 'sem'], EXPECT, what=__doc__.splitlines()[0])
