"""A class whose base is a namedtuple(...) call keeps the call in the stub; mypy's synthetic `Name@base1` class is then reported by stubtest as not present at run time.

Exit status 1 = defect present, 0 = absent, 2 = inconclusive (preconditions of the input failed).
Mechanism keys:
  stubtest:parse-only:unlisted-name:is not present at runtime
  stubtest:semantic:unlisted-name:is not present at runtime
"""
import os
import sys

sys.path.insert(0, os.path.dirname(os.path.abspath(__file__)))
from _c19repro import run

FILES = '''from collections import namedtuple

class P(namedtuple("P", "x y")):
    def norm(self) -> float:
        return 0.0
'''
EXPECT = ['stubtest:parse-only:unlisted-name:is not present at runtime',
 'stubtest:semantic:unlisted-name:is not present at runtime']
run(FILES, ['po', 'sem'], EXPECT, what=__doc__.splitlines()[0])
