"""stubtest: aliases of `type[int]` / of a TypedDict class are 'not a recognised type alias'.

Exit status 1 = defect present, 0 = absent, 2 = inconclusive (preconditions of the input failed).
Mechanism keys:
  stubtest:semantic:type-alias:is not a recognised type alias
  stubtest:semantic:class-alias:is not a recognised type alias
"""
import os
import sys

sys.path.insert(0, os.path.dirname(os.path.abspath(__file__)))
from _c19repro import run

FILES = '''from typing import Type, TypedDict

Alias = Type[int]

class Movie(TypedDict):
    title: str

MovieAlias = Movie
'''
EXPECT = ['stubtest:semantic:type-alias:is not a recognised type alias',
 'stubtest:semantic:class-alias:is not a recognised type alias']
run(FILES, 'sem', EXPECT, what=__doc__.splitlines()[0])
