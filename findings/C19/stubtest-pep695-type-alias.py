"""stubtest does not understand run-time TypeAliasType objects created by PEP 695 `type X = ...` statements.

Exit status 1 = defect present, 0 = absent, 2 = inconclusive (preconditions of the input failed).
Mechanism keys:
  stubtest:parse-only:pep695-alias:runtime TypeAliasType object is not understood
  stubtest:semantic:pep695-alias:runtime TypeAliasType object is not understood
"""
import os
import sys

sys.path.insert(0, os.path.dirname(os.path.abspath(__file__)))
from _c19repro import run

FILES = '''type MaybeInt = int | None
type Pairs[K, V] = list[tuple[K, V]]
'''
EXPECT = ['stubtest:parse-only:pep695-alias:runtime TypeAliasType object is not understood',
 'stubtest:semantic:pep695-alias:runtime TypeAliasType object is not understood']
run(FILES, ['po', 'sem'], EXPECT, what=__doc__.splitlines()[0])
