"""`__all__ = (...)` (a tuple) is emitted as a list; stubtest reports the type difference.

Exit status 1 = defect present, 0 = absent, 2 = inconclusive (preconditions of the input failed).
Mechanism keys:
  stubtest:semantic:__all__:variable differs from runtime type tuple[...]
"""
import os
import sys

sys.path.insert(0, os.path.dirname(os.path.abspath(__file__)))
from _c19repro import run

FILES = '''__all__ = ("f",)

def f() -> int:
    return 1
'''
EXPECT = ['stubtest:semantic:__all__:variable differs from runtime type tuple[...]']
run(FILES, 'sem', EXPECT, what=__doc__.splitlines()[0])
