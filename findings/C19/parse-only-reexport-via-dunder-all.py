"""--parse-only: an imported module listed in __all__ is not re-exported by the stub (the import is dropped).

Exit status 1 = defect present, 0 = absent, 2 = inconclusive (preconditions of the input failed).
Mechanism keys:
  stubtest:parse-only:imported-name-listed-in-__all__:is not present in stub
"""
import os
import sys

sys.path.insert(0, os.path.dirname(os.path.abspath(__file__)))
from _c19repro import run

FILES = '''import re

__all__ = ['re', 'x']

x: int = 1
'''
EXPECT = ['stubtest:parse-only:imported-name-listed-in-__all__:is not present in stub']
run(FILES, 'po', EXPECT, what=__doc__.splitlines()[0])
