"""--parse-only: a name imported from a sibling and listed in __all__ is not re-exported by the package stub.

Exit status 1 = defect present, 0 = absent, 2 = inconclusive (preconditions of the input failed).
Mechanism keys: stubtest:parse-only:imported-name-listed-in-__all__:is not present in stub, stubtest:parse-only:__all__:is not present in stub"""
import os
import sys

sys.path.insert(0, os.path.dirname(os.path.abspath(__file__)))
from _c19repro import run

FILES = {'c19pkg/__init__.py': "from .core import Thing\n\n__all__ = ['Thing']\n",
 'c19pkg/core.py': 'class Thing:\n    pass\n'}
EXPECT = ['stubtest:parse-only:imported-name-listed-in-__all__:is not present in stub',
 'stubtest:parse-only:__all__:is not present in stub']
run(FILES, 'po', EXPECT, what=__doc__.splitlines()[0])
