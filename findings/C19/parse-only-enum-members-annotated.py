"""--parse-only emits enum members as annotated attributes (`RED: int`), which mypy rejects in a stub.

Exit status 1 = defect present, 0 = absent, 2 = inconclusive (preconditions of the input failed).
Mechanism keys:
  stub-typecheck:parse-only:misc:Detected enum '_' in a type stub with zero members. There is a chance this is due to a recent change in the se:enum
"""
import os
import sys

sys.path.insert(0, os.path.dirname(os.path.abspath(__file__)))
from _c19repro import run

FILES = '''import enum

class Color(enum.Enum):
    RED = 1
    GREEN = 2
'''
EXPECT = ['stub-typecheck:parse-only:misc:Detected enum "_" in a type stub with zero members. There is a chance this '
 'is due to a recent change in the se:enum']
run(FILES, 'po', EXPECT, what=__doc__.splitlines()[0])
