"""--inspect-mode crashes (AttributeError: 'types.UnionType' object has no attribute '__name__'; same for ForwardRef and ParamSpecArgs objects) when an evaluated annotation is not a class.

Exit status 1 = defect present, 0 = absent, 2 = inconclusive (preconditions of the input failed).
Mechanism keys:
  stubgen-crash:inspect:AttributeError@stubgenc.py:get_type_fullname
"""
import os
import sys

sys.path.insert(0, os.path.dirname(os.path.abspath(__file__)))
from _c19repro import run

FILES = '''def f(x: float | int | None = None) -> None:
    pass
'''
EXPECT = ['stubgen-crash:inspect:AttributeError@stubgenc.py:get_type_fullname']
run(FILES, 'insp', EXPECT, what=__doc__.splitlines()[0])
