"""--parse-only drops `= ...` from NamedTuple fields that have defaults.

Exit status 1 = defect present, 0 = absent, 2 = inconclusive (preconditions of the input failed).
Mechanism keys:
  stubtest:parse-only:namedtuple-class.__new__:is inconsistent, runtime parameter '_' has a default value but stub parameter does not
"""
import os
import sys

sys.path.insert(0, os.path.dirname(os.path.abspath(__file__)))
from _c19repro import run

FILES = '''from typing import NamedTuple

class P(NamedTuple):
    x: int
    y: int = 0
'''
EXPECT = ['stubtest:parse-only:namedtuple-class.__new__:is inconsistent, runtime parameter "_" has a default value '
 'but stub parameter does not']
run(FILES, 'po', EXPECT, what=__doc__.splitlines()[0])
