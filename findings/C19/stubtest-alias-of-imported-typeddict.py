"""stubtest: an alias of a TypedDict imported from a sibling module is 'not a recognised type alias'.

Exit status 1 = defect present, 0 = absent, 2 = inconclusive (preconditions of the input failed).
Mechanism keys:
  stubtest:semantic:imported-name-alias:is not a recognised type alias
"""
import os
import sys

sys.path.insert(0, os.path.dirname(os.path.abspath(__file__)))
from _c19repro import run

FILES = {'c19pkg/__init__.py': '',
 'c19pkg/core.py': 'from typing import TypedDict\n\nclass Movie(TypedDict):\n    title: str\n',
 'c19pkg/util.py': 'from .core import Movie\n\nAlias = Movie\n'}
EXPECT = ['stubtest:semantic:imported-name-alias:is not a recognised type alias']
run(FILES, 'sem', EXPECT, what=__doc__.splitlines()[0])
