"""A private TypeVar used by a public signature is omitted from the stub, which then names an undefined `_T`.

Exit status 1 = defect present, 0 = absent, 2 = inconclusive (preconditions of the input failed).
Mechanism keys:
  stub-typecheck:parse-only:name-defined:private-typevar-omitted-but-referenced
  stub-typecheck:semantic:name-defined:private-typevar-omitted-but-referenced
"""
import os
import sys

sys.path.insert(0, os.path.dirname(os.path.abspath(__file__)))
from _c19repro import run

FILES = '''from typing import Generic, TypeVar

_T = TypeVar("_T")

def ident(x: _T) -> _T:
    return x

class Box(Generic[_T]):
    def get(self) -> _T:
        raise NotImplementedError
'''
EXPECT = ['stub-typecheck:parse-only:name-defined:private-typevar-omitted-but-referenced',
 'stub-typecheck:semantic:name-defined:private-typevar-omitted-but-referenced']
run(FILES, ['po', 'sem'], EXPECT, what=__doc__.splitlines()[0])
