"""stubtest reports `__type_params__` of PEP 695 generic classes as missing from the stub.

Exit status 1 = defect present, 0 = absent, 2 = inconclusive (preconditions of the input failed).
Mechanism keys:
  stubtest:parse-only:pep695-class.__type_params__:is not present in stub
  stubtest:semantic:pep695-class.__type_params__:is not present in stub
"""
import os
import sys

sys.path.insert(0, os.path.dirname(os.path.abspath(__file__)))
from _c19repro import run

FILES = '''class Stack[T]:
    def push(self, x: T) -> None:
        pass
'''
EXPECT = ['stubtest:parse-only:pep695-class.__type_params__:is not present in stub',
 'stubtest:semantic:pep695-class.__type_params__:is not present in stub']
run(FILES, ['po', 'sem'], EXPECT, what=__doc__.splitlines()[0])
