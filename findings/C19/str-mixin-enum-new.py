"""stubtest compares `str.__new__` (from the stub's MRO) with Enum's run-time `__new__` for `class M(str, Enum)`.

Exit status 1 = defect present, 0 = absent, 2 = inconclusive (preconditions of the input failed).
Mechanism keys:
  stubtest:semantic:enum.__new__:is inconsistent, runtime does not have parameter '_'
"""
import os
import sys

sys.path.insert(0, os.path.dirname(os.path.abspath(__file__)))
from _c19repro import run

FILES = '''from enum import Enum

class Mode(str, Enum):
    A = "a"
    B = "b"
'''
EXPECT = ['stubtest:semantic:enum.__new__:is inconsistent, runtime does not have parameter "_"']
run(FILES, 'sem', EXPECT, what=__doc__.splitlines()[0])
