"""--parse-only: `from .core import Record as ImpRecord` is dropped from a module's stub when unused there, but a sibling's stub still imports ImpRecord from it.

Exit status 1 = defect present, 0 = absent, 2 = inconclusive (preconditions of the input failed).
Mechanism keys:
  stub-typecheck:parse-only:attr-defined:Module '_' has no attribute '_':import
"""
import os
import sys

sys.path.insert(0, os.path.dirname(os.path.abspath(__file__)))
from _c19repro import run

FILES = {'c19pkg/__init__.py': '',
 'c19pkg/core.py': 'class Record:\n    pass\n',
 'c19pkg/leaf.py': 'from .util import ImpRecord\n\ndef g(x: ImpRecord) -> ImpRecord:\n    return x\n',
 'c19pkg/util.py': 'from .core import Record as ImpRecord\n\nVALUE: int = 1\n'}
EXPECT = ['stub-typecheck:parse-only:attr-defined:Module "_" has no attribute "_":import']
run(FILES, 'po', EXPECT, what=__doc__.splitlines()[0])
