"""Without importing the module, `__all__ = [] + ['f']` is not understood: the stub has no __all__ and exports everything.

Exit status 1 = defect present, 0 = absent, 2 = inconclusive (preconditions of the input failed).
Mechanism keys:
  stubtest:semantic:__all__:is not present in stub
"""
import os
import sys

sys.path.insert(0, os.path.dirname(os.path.abspath(__file__)))
from _c19repro import run

FILES = '''__all__ = [] + ['f']

def f() -> None: ...
def g() -> None: ...
'''
EXPECT = ['stubtest:semantic:__all__:is not present in stub']
run(FILES, 'sem', EXPECT, what=__doc__.splitlines()[0])
