"""`X: typing.Final = 1.5` (module-qualified Final) is emitted as `X: typing.Final` with neither type nor value; only the bare imported name `Final` gets its type argument filled in.

Exit status 1 = defect present, 0 = absent, 2 = inconclusive (preconditions of the input failed).
Mechanism keys:
  stub-typecheck:parse-only:misc:Type in Final[...] can only be omitted if there is an initializer:final-variable
  stub-typecheck:semantic:misc:Type in Final[...] can only be omitted if there is an initializer:final-variable
"""
import os
import sys

sys.path.insert(0, os.path.dirname(os.path.abspath(__file__)))
from _c19repro import run

FILES = '''import typing

MAX: typing.Final = 1.5
'''
EXPECT = ['stub-typecheck:parse-only:misc:Type in Final[...] can only be omitted if there is an '
 'initializer:final-variable',
 'stub-typecheck:semantic:misc:Type in Final[...] can only be omitted if there is an '
 'initializer:final-variable']
run(FILES, ['po', 'sem'], EXPECT, what=__doc__.splitlines()[0])
