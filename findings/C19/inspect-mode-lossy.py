"""--inspect-mode on a pure-Python module: the runtime-introspection generator drops or changes spelled annotations,
decorators, overloads, positional-only markers, emits runtime-private names and types that mypy rejects.

Exit status 1 = at least one of the mechanisms is observed, 0 = none, 2 = inconclusive.
Mechanism keys (family, coarse by design - see checks/c19.py): every key of KEYS.json whose defect is
"inspect-mode-lossy-for-python-modules"; the ones observed on this input are printed.
"""
import os
import sys

sys.path.insert(0, os.path.dirname(os.path.abspath(__file__)))
from _c19repro import run

FILES = '''import abc
import enum
from dataclasses import dataclass
from typing import Generic, List, NamedTuple, Optional, TypedDict, TypeVar, overload

T = TypeVar("T")

class Color(enum.Enum):
    RED = 1
    GREEN = 2

class Point(NamedTuple):
    x: int
    y: int = 0

class Movie(TypedDict, total=False):
    title: str

@dataclass
class Item:
    name: str
    tags: List[str]
    qty: int = 0

class Shape(abc.ABC):
    @abc.abstractmethod
    def area(self) -> float: ...

class Box(Generic[T]):
    limit: int = 5

    def __init__(self, item: T, /, *, label: Optional[str] = None) -> None:
        self.item = item
        self.label: Optional[str] = label

    @property
    def value(self) -> T:
        return self.item

    @overload
    def conv(self, x: int) -> str: ...
    @overload
    def conv(self, x: str) -> int: ...
    def conv(self, x):
        return x

    async def fetch(self, urls: List[str]) -> List[bytes]:
        return []

def first(xs: List[T], default: Optional[T] = None) -> Optional[T]:
    return xs[0] if xs else default
'''
EXPECT = ['structure:inspect:annotation-changed:param',
 'structure:inspect:annotation-changed:return',
 'structure:inspect:annotation-changed:variable',
 'structure:inspect:annotation-dropped:param',
 'structure:inspect:annotation-dropped:return',
 'structure:inspect:annotation-replaced-by-Incomplete:param',
 'structure:inspect:annotation-replaced-by-Incomplete:return',
 'structure:inspect:annotation-replaced-by-Incomplete:variable',
 'structure:inspect:annotation-type-args-dropped:param',
 'structure:inspect:annotation-type-args-dropped:return',
 'structure:inspect:annotation-type-args-dropped:variable',
 'structure:inspect:async-flag',
 'structure:inspect:class-base-missing',
 'structure:inspect:class-base-type-args-dropped',
 'structure:inspect:class-decorator-dropped',
 'structure:inspect:class-keyword-dropped',
 'structure:inspect:missing',
 'structure:inspect:missing-annotated-variable',
 'structure:inspect:missing-class',
 'structure:inspect:missing-function',
 'structure:inspect:overload-count',
 'structure:inspect:param-extra',
 'structure:inspect:param-kind',
 'structure:inspect:param-list',
 'stub-typecheck:inspect:attr-defined:Module "_" does not explicitly export attribute "_"',
 'stub-typecheck:inspect:attr-defined:Module "_" has no attribute "_"',
 'stub-typecheck:inspect:import-not-found:Cannot find implementation or library stub for module named "_"',
 'stub-typecheck:inspect:misc:Cannot resolve name "_" (possible cyclic definition)',
 'stub-typecheck:inspect:misc:Enum members must be left unannotated',
 'stub-typecheck:inspect:misc:Unpack[...] requires exactly one type argument',
 'stub-typecheck:inspect:name-defined:Name "_" is not defined',
 'stub-typecheck:inspect:type-arg:"_" expects no type arguments, but N given',
 'stub-typecheck:inspect:valid-type:Annotated[...] must have exactly one type argument and at least one annotation',
 'stub-typecheck:inspect:valid-type:Literal[...] must have at least one parameter',
 'stub-typecheck:inspect:valid-type:The first argument to Callable must be a list of types, parameter specification, '
 'or "_"',
 'stub-typecheck:inspect:valid-type:Variable "_" is not valid as a type',
 'stubtest:inspect:is an "_" function at runtime, but not in the stub',
 'stubtest:inspect:is inconsistent, runtime does not have **kwargs parameter "_"',
 'stubtest:inspect:is inconsistent, runtime does not have parameter "_"',
 'stubtest:inspect:is inconsistent, runtime does not have parameter "_". You may need to write stubs for __new__ '
 'instead of __ini',
 'stubtest:inspect:is inconsistent, runtime property is abstract but stub is not',
 'stubtest:inspect:is inconsistent, stub does not have parameter "_"',
 'stubtest:inspect:is inconsistent, stub parameter "_" should be positional-only (add "_", e.g. "_")',
 'stubtest:inspect:is not present in stub',
 'stubtest:inspect:names exported from the stub do not correspond to the names exported at runtime. This is probably '
 'due to thing']
run(FILES, "insp", EXPECT, what=__doc__.splitlines()[0])
