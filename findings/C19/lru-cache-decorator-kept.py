"""stubgen keeps `@functools.lru_cache`/`@functools.cache`; stubtest then compares the wrapper's (*args, **kwargs) call signature with the wrapped function's signature and reports a disagreement.

Exit status 1 = defect present, 0 = absent, 2 = inconclusive (preconditions of the input failed).
Mechanism keys:
  stubtest:parse-only:decorated-function:is inconsistent, runtime does not have **kwargs parameter '_'
  stubtest:semantic:decorated-function:is inconsistent, runtime does not have **kwargs parameter '_'
"""
import os
import sys

sys.path.insert(0, os.path.dirname(os.path.abspath(__file__)))
from _c19repro import run

FILES = '''import functools

@functools.lru_cache
def cached(x: int, y: str = 'a') -> str:
    return y * x
'''
EXPECT = ['stubtest:parse-only:decorated-function:is inconsistent, runtime does not have **kwargs parameter "_"',
 'stubtest:semantic:decorated-function:is inconsistent, runtime does not have **kwargs parameter "_"']
run(FILES, ['po', 'sem'], EXPECT, what=__doc__.splitlines()[0])
