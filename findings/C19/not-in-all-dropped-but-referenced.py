"""With __all__, a public helper that is not listed is omitted although a listed definition still refers to it.

Exit status 1 = defect present, 0 = absent, 2 = inconclusive (preconditions of the input failed).
Mechanism keys:
  stub-typecheck:semantic:name-defined:not-in-__all__-function-omitted-but-referenced
"""
import os
import sys

sys.path.insert(0, os.path.dirname(os.path.abspath(__file__)))
from _c19repro import run

FILES = '''__all__ = ["run", "Alias"]

def deco(fn):
    return fn

@deco
def run(x: int) -> int:
    return x

Pair = tuple[int, str]
Alias = list[Pair]
'''
EXPECT = ['stub-typecheck:semantic:name-defined:not-in-__all__-function-omitted-but-referenced']
run(FILES, 'sem', EXPECT, what=__doc__.splitlines()[0])
