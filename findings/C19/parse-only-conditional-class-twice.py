"""--parse-only emits both branches of a conditional class definition (functions are de-duplicated, classes are not).

Exit status 1 = defect present, 0 = absent, 2 = inconclusive (preconditions of the input failed).
Mechanism keys:
  stub-typecheck:parse-only:no-redef:Name '_' already defined on line N:conditional-class
"""
import os
import sys

sys.path.insert(0, os.path.dirname(os.path.abspath(__file__)))
from _c19repro import run

FILES = '''import sys

if sys.version_info >= (3, 11):
    class Fallback:
        new: int = 1
else:
    class Fallback:
        old: int = 0
'''
EXPECT = ['stub-typecheck:parse-only:no-redef:Name "_" already defined on line N:conditional-class']
run(FILES, 'po', EXPECT, what=__doc__.splitlines()[0])
