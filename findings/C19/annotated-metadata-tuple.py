"""stubgen rewrites the metadata of `Annotated[T, (..)]` as if it were a type: ('a', 1) -> tuple[a, 1]."""
import os, sys
sys.path.insert(0, os.path.dirname(os.path.abspath(__file__)))
from _c19repro import run

SRC = '''
from typing import Annotated

def scale(x: Annotated[int, ('unit', 1)]) -> int:
    return x
'''
run(SRC, "sem", ["structure:semantic:annotation-changed:param:Annotated"], what=__doc__)
