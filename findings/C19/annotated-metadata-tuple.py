"""stubgen prints the metadata of Annotated[T, (..)] as if it were a type: ('unit', 1) becomes tuple[unit, 1].

Exit status 1 = defect present, 0 = absent, 2 = inconclusive (preconditions of the input failed).
Mechanism keys:
  structure:parse-only:annotation-changed:param:Annotated
  structure:parse-only:annotation-changed:return:Annotated
  structure:parse-only:annotation-changed:variable:Annotated
  structure:semantic:annotation-changed:param:Annotated
  structure:semantic:annotation-changed:return:Annotated
  structure:semantic:annotation-changed:variable:Annotated
"""
import os
import sys

sys.path.insert(0, os.path.dirname(os.path.abspath(__file__)))
from _c19repro import run

FILES = '''from typing import Annotated

LIMIT: Annotated[int, ('unit', 1)] = 3

def scale(x: Annotated[int, ('unit', 1)]) -> Annotated[int, ('unit', 1)]:
    return x
'''
EXPECT = ['structure:parse-only:annotation-changed:param:Annotated',
 'structure:parse-only:annotation-changed:return:Annotated',
 'structure:parse-only:annotation-changed:variable:Annotated',
 'structure:semantic:annotation-changed:param:Annotated',
 'structure:semantic:annotation-changed:return:Annotated',
 'structure:semantic:annotation-changed:variable:Annotated']
run(FILES, ['po', 'sem'], EXPECT, what=__doc__.splitlines()[0])
