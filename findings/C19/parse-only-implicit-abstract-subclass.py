"""--parse-only cannot add metaclass=ABCMeta to a subclass that leaves abstract methods unimplemented; mypy rejects it in a stub.

Exit status 1 = defect present, 0 = absent, 2 = inconclusive (preconditions of the input failed).
Mechanism keys:
  stub-typecheck:parse-only:misc:Class _ has abstract attributes ...:class
"""
import os
import sys

sys.path.insert(0, os.path.dirname(os.path.abspath(__file__)))
from _c19repro import run

FILES = '''from abc import ABC, abstractmethod

class Base(ABC):
    @abstractmethod
    def area(self) -> float: ...

class Partial(Base):
    def other(self) -> int:
        return 1
'''
EXPECT = ['stub-typecheck:parse-only:misc:Class _ has abstract attributes ...:class']
run(FILES, 'po', EXPECT, what=__doc__.splitlines()[0])
