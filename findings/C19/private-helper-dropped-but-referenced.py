"""Private functions referenced by public definitions (here: as a decorator) are omitted from the stub, which then refers to an undefined name.

Exit status 1 = defect present, 0 = absent, 2 = inconclusive (preconditions of the input failed).
Mechanism keys:
  stub-typecheck:parse-only:name-defined:private-function-omitted-but-referenced
  stub-typecheck:semantic:name-defined:private-function-omitted-but-referenced
"""
import os
import sys

sys.path.insert(0, os.path.dirname(os.path.abspath(__file__)))
from _c19repro import run

FILES = '''def _deco(fn):
    return fn

class _Opts:
    level: int = 0

class _BaseImpl:
    def shared(self) -> int:
        return 1

@_deco
def run(x: int) -> int:
    return x

def configure(opts: _Opts) -> _Opts:
    return opts

class Public(_BaseImpl):
    pass
'''
EXPECT = ['stub-typecheck:parse-only:name-defined:private-function-omitted-but-referenced',
 'stub-typecheck:semantic:name-defined:private-function-omitted-but-referenced']
run(FILES, ['po', 'sem'], EXPECT, what=__doc__.splitlines()[0])
