"""Shared driver of the C19 repro scripts (each script holds only its minimal input).

Runs the real stubgen (from VERIF_REPO, default /repo) on the given source in the given mode, feeds the
stub to mypy and stubtest exactly as checks/c19.py does, prints the raw evidence, and exits
1 if one of the expected mechanism keys is observed (defect present), 0 if not, 2 if the input's
preconditions failed (inconclusive)."""

from __future__ import annotations

import os
import shutil
import sys
import tempfile

VERIF = os.path.dirname(os.path.dirname(os.path.dirname(os.path.abspath(__file__))))


def run(files: dict[str, str] | str, mode: str | list[str], expect: list[str], flags: tuple[str, ...] = (),
        style: str | None = None, module: str | None = None, what: str = "") -> None:
    """mode: po | sem | insp, or a list of them (the defect shows in each listed mode)."""
    tmp = tempfile.mkdtemp(prefix="verif-C19-repro-", dir=os.environ.get("VERIF_WORK", "/var/tmp"))
    os.environ["VERIF_POOL_ROOT"] = tmp
    sys.path.insert(0, VERIF)
    repo = os.environ.get("VERIF_REPO", "/repo")
    if repo != "/repo":
        sys.path.insert(0, repo)
    rc = 2
    try:
        from checks import c19
        from vlib import common
        from vlib.tasks import c19_run

        if isinstance(files, str):
            files = {"c19repro.py": files}
        modules = []
        for f in sorted(files):
            m = f[:-3].replace("/", ".")
            modules.append(m[: -len(".__init__")] if m.endswith(".__init__") else m)
        modules.sort(key=lambda m: m.count("."))
        print(f"# {what.strip()}" if what else "")
        present = False
        evaluated = False
        for md in ([mode] if isinstance(mode, str) else mode):
            st = style or ("modules" if md == "insp" else "files")
            res = c19_run.run_bundle(files, modules, md, list(flags), st)
            ctx = common.Ctx("C19", "quick")
            ctx._kf = {}
            ev = c19.Evaluator(ctx)
            task = {"args": {"files": files, "modules": modules, "mode": md, "flags": list(flags), "style": st},
                    "_id": "repro", "_stream": "repro"}
            ev.evaluate(task, res, only=module)
            hits = [v for v in ctx.violations if v["key"] in expect]
            print(f"\n# stubgen mode={md} flags={list(flags)} style={st}; mypy from {repo}")
            if not ctx.evaluations:
                print("INCONCLUSIVE:", ctx.inconclusive, res.get("pre"))
                continue
            evaluated = True
            if hits:
                present = True
                w = hits[0]["witness"]
                print("---- source (" + str(w.get("module")) + ") ----\n" + w.get("source", "").strip())
                print("---- stub ----\n" + str(w.get("stub")).strip())
                for h in hits:
                    ww = h["witness"]
                    print("---- DEFECT PRESENT:", h["key"])
                    for k in ("mypy", "stub_line", "stubtest", "object", "detail", "traceback", "error", "line"):
                        if ww.get(k):
                            print(f"{k}: {str(ww[k]).strip()}")
            else:
                print("expected keys not observed; keys observed:", sorted({v["key"] for v in ctx.violations}))
        rc = 1 if present else (0 if evaluated else 2)
    finally:
        shutil.rmtree(tmp, ignore_errors=True)
    sys.exit(rc)
