"""stubtest: an InitVar field with a default exists as a class attribute at run time but is removed from the stub's class by the dataclass plugin, so stubtest reports it missing from the stub.

Exit status 1 = defect present, 0 = absent, 2 = inconclusive (preconditions of the input failed).
Mechanism keys:
  stubtest:parse-only:dataclass.field:is not present in stub
  stubtest:semantic:dataclass.field:is not present in stub
"""
import os
import sys

sys.path.insert(0, os.path.dirname(os.path.abspath(__file__)))
from _c19repro import run

FILES = '''from dataclasses import InitVar, dataclass

@dataclass
class C:
    x: int = 0
    seed: InitVar[int] = 0

    def __post_init__(self, seed: int) -> None:
        pass
'''
EXPECT = ['stubtest:parse-only:dataclass.field:is not present in stub',
 'stubtest:semantic:dataclass.field:is not present in stub']
run(FILES, ['po', 'sem'], EXPECT, what=__doc__.splitlines()[0])
