"""An unannotated class attribute of a dataclass is emitted as `name = ...`, i.e. with type EllipsisType.

Exit status 1 = defect present, 0 = absent, 2 = inconclusive (preconditions of the input failed).
Mechanism keys:
  stubtest:parse-only:dataclass.class-variable:variable differs from runtime type Literal[...]
  stubtest:semantic:dataclass.class-variable:variable differs from runtime type Literal[...]
"""
import os
import sys

sys.path.insert(0, os.path.dirname(os.path.abspath(__file__)))
from _c19repro import run

FILES = '''from dataclasses import dataclass

@dataclass
class C:
    x: int = 0
    unannotated = 0
'''
EXPECT = ['stubtest:parse-only:dataclass.class-variable:variable differs from runtime type Literal[...]',
 'stubtest:semantic:dataclass.class-variable:variable differs from runtime type Literal[...]']
run(FILES, ['po', 'sem'], EXPECT, what=__doc__.splitlines()[0])
