"""AliasPrinter prints `not True` inside a dataclass field specifier as `notTrue`.

Exit status 1 = defect present, 0 = absent, 2 = inconclusive (preconditions of the input failed).
Mechanism keys:
  stub-typecheck:parse-only:name-defined:name-unknown-to-source
  stub-typecheck:semantic:name-defined:name-unknown-to-source
"""
import os
import sys

sys.path.insert(0, os.path.dirname(os.path.abspath(__file__)))
from _c19repro import run

FILES = '''import dataclasses

@dataclasses.dataclass
class P:
    flag: bool = dataclasses.field(default=not True)
'''
EXPECT = ['stub-typecheck:parse-only:name-defined:name-unknown-to-source',
 'stub-typecheck:semantic:name-defined:name-unknown-to-source']
run(FILES, ['po', 'sem'], EXPECT, what=__doc__.splitlines()[0])
