"""--inspect-mode crashes (SyntaxError from parse_type_comment('*Ts')) on `*args: *Ts` when annotations are strings (from __future__ import annotations).

Exit status 1 = defect present, 0 = absent, 2 = inconclusive (preconditions of the input failed).
Mechanism keys:
  stubgen-crash:inspect:SyntaxError@fastparse.py:ast3_parse
"""
import os
import sys

sys.path.insert(0, os.path.dirname(os.path.abspath(__file__)))
from _c19repro import run

FILES = '''from __future__ import annotations

def tup[*Ts](*args: *Ts) -> tuple[*Ts]:
    return args
'''
EXPECT = ['stubgen-crash:inspect:SyntaxError@fastparse.py:ast3_parse']
run(FILES, 'insp', EXPECT, what=__doc__.splitlines()[0])
