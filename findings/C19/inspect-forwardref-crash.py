"""--inspect-mode crashes (AttributeError: 'ForwardRef' object has no attribute '__name__') on a string annotation inside a subscript.

Exit status 1 = defect present, 0 = absent, 2 = inconclusive (preconditions of the input failed).
Mechanism keys: stubgen-crash:inspect:AttributeError@stubgenc.py:get_type_fullname"""
import os
import sys

sys.path.insert(0, os.path.dirname(os.path.abspath(__file__)))
from _c19repro import run

FILES = '''from typing import Optional

class Node:
    def link(self, other: Optional["Node"] = None) -> None:
        pass
'''
EXPECT = ['stubgen-crash:inspect:AttributeError@stubgenc.py:get_type_fullname']
run(FILES, 'insp', EXPECT, what=__doc__.splitlines()[0])
