"""stubtest reports the plugin-generated TypeVar `_DT` of an order=True dataclass as 'not present at runtime'.

Exit status 1 = defect present, 0 = absent, 2 = inconclusive (preconditions of the input failed).
Mechanism keys:
  stubtest:parse-only:dataclass.synthetic:_DT:is not present at runtime
  stubtest:semantic:dataclass.synthetic:_DT:is not present at runtime
"""
import os
import sys

sys.path.insert(0, os.path.dirname(os.path.abspath(__file__)))
from _c19repro import run

FILES = '''from dataclasses import dataclass

@dataclass(order=True)
class Key:
    k: int = 0
'''
EXPECT = ['stubtest:parse-only:dataclass.synthetic:_DT:is not present at runtime',
 'stubtest:semantic:dataclass.synthetic:_DT:is not present at runtime']
run(FILES, ['po', 'sem'], EXPECT, what=__doc__.splitlines()[0])
