"""With --export-less a name imported into one module of a package is not re-exported by its stub, but the stub of a sibling that imports it from there still does so.

Exit status 1 = defect present, 0 = absent, 2 = inconclusive (preconditions of the input failed).
Mechanism keys:
  stub-typecheck:parse-only:attr-defined:Module '_' does not explicitly export attribute '_':import
  stub-typecheck:semantic:attr-defined:Module '_' does not explicitly export attribute '_':import
"""
import os
import sys

sys.path.insert(0, os.path.dirname(os.path.abspath(__file__)))
from _c19repro import run

FILES = {'c19pkg/__init__.py': '',
 'c19pkg/core.py': 'class Level:\n    pass\n',
 'c19pkg/leaf.py': 'from .util import Level\n\ndef g(x: Level) -> Level:\n    return x\n',
 'c19pkg/util.py': 'from .core import Level\n\ndef f(x: Level) -> Level:\n    return x\n'}
EXPECT = ['stub-typecheck:parse-only:attr-defined:Module "_" does not explicitly export attribute "_":import',
 'stub-typecheck:semantic:attr-defined:Module "_" does not explicitly export attribute "_":import']
run(FILES, ['po', 'sem'], EXPECT, flags=('--export-less',), what=__doc__.splitlines()[0])
