#!/venv/bin/python
"""Entry point: `check.py <ID> --tier quick|thorough [--replay path]` (cwd /verif).

exit 0: property held on everything explored (known findings are printed as KNOWN-FINDING lines)
exit 1: >=1 unlisted violation, each printed as `VIOLATION property=<id> replay=<path>`
exit 2: inconclusive (the deciding monitor observed too little) - never reported as held
"""

from __future__ import annotations

import argparse
import importlib
import json
import os
import sys
import traceback

sys.path.insert(0, os.path.dirname(os.path.abspath(__file__)))

from vlib import common  # noqa: E402

LEVELS = {"C04": "fault_enumeration", "C16": "fault_enumeration"}


def main() -> int:
    ap = argparse.ArgumentParser()
    ap.add_argument("pid")
    ap.add_argument("--tier", default=os.environ.get("VERIF_TIER", "quick"), choices=["quick", "thorough"])
    ap.add_argument("--replay", default=None)
    ns = ap.parse_args()
    tier = os.environ.get("VERIF_TIER") or ns.tier
    if tier not in ("quick", "thorough"):
        tier = ns.tier
    pid = ns.pid.upper()
    os.chdir(common.VERIF)
    common.ensure_deps()
    mod = importlib.import_module(f"checks.{pid.lower()}")
    ctx = common.Ctx(pid, tier, LEVELS.get(pid, "exploration"))
    if ns.replay:
        with open(ns.replay) as f:
            rep = json.load(f)
        try:
            return int(mod.replay(ctx, rep))
        except AttributeError:
            print(json.dumps(rep, indent=1)[:4000])
            print("(this check has no automatic replayer: the witness above is self-contained)")
            return 0
    try:
        mod.run(ctx)
    except Exception:
        traceback.print_exc()
        print(f"INCONCLUSIVE property={pid} harness error (not a verdict on the code under test)")
        ctx.inconc("harness_error")
        ctx.floor_nontrivial = 10 ** 9
        ctx.finish()
        return 2
    return ctx.finish()


if __name__ == "__main__":
    sys.exit(main())
