"""C16 - the daemon survives client faults; the channel delivers intact messages; no status file
outlives the daemon.

(a) fault sequences against REAL daemons (`python -m mypy.dmypy start`): a hostile raw client built on
    the repository's IPCClient/framing misbehaves (closes at chosen byte offsets, garbage / non-JSON /
    non-object frames, oversized length header, malformed and unknown commands, unread replies,
    pipelined extra frames), always closes its socket, and after EVERY such element the repository's
    own client probes: status request, `dmypy status`, `dmypy check|recheck` compared with the
    fault-free result of a fresh daemon on the same files, same pid.
(b) the real IPCBase.read_bytes/frame_from_buffer/write_bytes over every segmentation of short
    streams (exhaustive up to a byte bound), adversarial/random segmentations of long ones, and a real
    socketpair in both directions; unique message ids decide loss/duplication/reordering.
(c) every way the daemon ends (stop, unread stop, SIGTERM, SIGINT, idle timeout, crash inside a
    command, malformed stop; SIGKILL is reported as unreachable-by-design): once the PROCESS has
    exited, no status file naming its pid may remain."""

from __future__ import annotations

import itertools
import os
import signal
from typing import Any, Iterator

from vlib import c16_faults as F
from vlib import common
from vlib.pool import Pool

T_SEQ = "vlib.tasks.c16_daemon:run_sequence"
T_EXP = "vlib.tasks.c16_daemon:expected"
T_STOP = "vlib.tasks.c16_daemon:stop_path"

STOP_PATHS = ["stop-cli", "stop-inproc", "stop-unread", "SIGTERM", "SIGINT", "idle-timeout", "crash-in-command",
              "malformed-stop", "kill-cli", "SIGKILL"]
NOT_JUDGED = {"kill-cli": "SIGKILL: no code of the daemon can run (unreachable-by-design)",
              "SIGKILL": "SIGKILL: no code of the daemon can run (unreachable-by-design)"}


def build_base_cache(wd: str) -> str | None:
    """Typeshed-only fine-grained cache made by the real batch mypy of the tree under test (once per run)."""
    proj = os.path.join(wd, "seedproj")
    os.makedirs(proj, exist_ok=True)
    common.write_files(proj, {F.SEED_MODULE + ".py": F.SEED_TEXT})
    base = os.path.join(wd, "fgbase")
    r = common.run_cli(["--cache-fine-grained", "--cache-dir", base, "--no-error-summary", F.SEED_MODULE + ".py"],
                       cwd=proj, env=common.base_env(), timeout=600)
    if r["status"] != 0 or not os.path.isdir(base):
        return None
    return base


def kill_strays(wd: str) -> int:
    """Belt and braces: no process whose cwd is inside the work directory survives the check."""
    n = 0
    me = os.getpid()
    for ent in os.listdir("/proc"):
        if not ent.isdigit() or int(ent) == me:
            continue
        try:
            cwd = os.readlink(f"/proc/{ent}/cwd")
        except OSError:
            continue
        if cwd.startswith(wd):
            try:
                os.kill(int(ent), signal.SIGKILL)
                n += 1
            except OSError:
                pass
    return n


def seq_task(seq: dict[str, Any], table: dict[str, Any], base: str | None, **kw: Any) -> dict[str, Any]:
    used = {f"{seq['cache_mode']}:{F.vid(seq['start_version'])}"} | {
        f"{seq['cache_mode']}:{F.vid(e['version'])}" for e in seq["elements"] if e["op"] == "edit"}
    args = {"seq": seq, "expected_table": {k: table[k] for k in used}, "base_cache": base,
            "max_restarts": 4 if seq["cache_mode"] == "fgcache" else 1, **kw}
    return {"fn": T_SEQ, "args": args, "_kind": "seq", "_timeout": 900}


def framing_tasks(quick: bool, scale: float) -> Iterator[dict[str, Any]]:
    from vlib.tasks import c16_framing as FR
    bound = 14 if quick else 17
    if scale < 0.5:
        bound -= 2
    tuples = sorted(FR.size_tuples(bound), key=lambda s: -(sum(s) + 4 * len(s)))
    for sizes in tuples:
        yield {"fn": "vlib.tasks.c16_framing:exhaustive", "args": {"sizes": sizes}, "_kind": "framing-ex", "_timeout": 900}
    n_s, n_p = (3000, 240) if quick else (20000, 1000)
    n_s, n_p = max(26, int(n_s * scale)), max(6, int(n_p * scale))
    per = 250 if quick else 1000
    for j in range(0, n_s, per):
        yield {"fn": "vlib.tasks.c16_framing:sampled", "args": {"seed_parts": ["s", j], "n_streams": min(per, n_s - j)},
               "_kind": "framing-s", "_timeout": 900}
    per_p = 30 if quick else 100
    for j in range(0, n_p, per_p):
        yield {"fn": "vlib.tasks.c16_framing:socketpair", "args": {"seed_parts": ["p", j], "n_streams": min(per_p, n_p - j)},
               "_kind": "framing-p", "_timeout": 900}


def witness_of(t: dict[str, Any], ev: dict[str, Any]) -> dict[str, Any]:
    return {"task": {"fn": t["fn"], "args": t["args"]}, "event": ev,
            "how_to_read": "args.seq.elements[event.i] is the fault; event.probe holds what the repository's own client saw afterwards"}


def run(ctx: common.Ctx) -> None:
    quick = ctx.tier == "quick"
    scale = float(os.environ.get("VERIF_SCALE", "1"))
    n_seq = max(8, int((200 if quick else 1000) * scale))
    stop_reps = 1 if quick else 4
    ctx.rule = ("(a) seeded fault sequence = 1-4 hostile client behaviours (catalogue of %d, first fault round-robin over the catalogue) "
                "interleaved with edits/checks against a real daemon whose fault-free baseline (status, check, recheck) was verified "
                "equal to a fresh daemon's non-empty result; non-trivial = a fault was injected and the post-fault probe by the "
                "repository's client reached a verdict (daemon exit observed by waitpid, or status+check|recheck compared with the "
                "non-empty fault-free output); distinct by (fault label, cut offset, version, probe mode, cache mode, verbose, faults "
                "survived before). (b) non-trivial = segmentation that splits a header or a body or coalesces frames; exhaustive "
                "enumerations contribute one fingerprint per (sizes, segmentation class), sampled ones one per stream. (c) one per "
                "(stop path, before/after first check, cache mode)." % len(F.all_single_faults()))
    ctx.assumptions += [
        "every hostile client closes its socket and the probe starts after the close (a half-sent frame kept open blocks the synchronous server by design)",
        "the `hang` debug command is not sent",
        "expected output of a check = output of a fresh real daemon on the same files (history-independent by construction of the project); "
        "a differing later check is attributed to the faults only if a fault-free twin run of the same edit/check/restart history gives the expected output",
        "logical clock: source mtimes advance 10 s per edit",
        "fgcache daemons: --use-fine-grained-cache with a private copy of a typeshed-only cache built by the tree's batch mypy; "
        "a cached error-free seed module is passed next to main.py so that the cache is used (build.py needs >= half of the sources cached)",
        "worker = child sub-reaper: the daemon's exit is observed with waitpid; a zombie counts as exited "
        "(pid 1 of this sandbox does not reap, which makes the repository's alive() say True for dead daemons)",
        "SIGKILL stop paths are executed but not judged (no code can run)",
        "every daemon is started with --timeout 900 (idle shutdown) as a safety net against leaked daemons; the idle-timeout stop path uses --timeout 1",
        "zero-length messages are not part of the framing workload (read_bytes reports them like end-of-stream by design)",
        "watchdogs: 20 s per hostile socket operation; a daemon that is alive but serves neither of two consecutive well-formed status requests (30 s and 15 s watchdogs; a status request normally takes milliseconds) is 'unresponsive'",
    ]
    n_a_nontriv = 0
    n_b_nontriv = 0
    pending: list[tuple[dict[str, Any], dict[str, Any], str, str]] = []  # (task, event, key, what)
    with common.workdir("C16") as wd:
        try:
            base = build_base_cache(wd)
            if base is None:
                ctx.inconc("fine-grained base cache could not be built: fgcache sequences run as plain")
            env = common.base_env(VERIF_POOL_ROOT=wd)
            with Pool(env=env) as pool:
                # ---- phase 0: fault-free reference results from fresh daemons ------------------------
                seqs = list(F.gen_sequences(n_seq, ctx.tier))
                F.fix_start_versions(seqs)
                if base is None:
                    for s in seqs:
                        s["cache_mode"] = "plain"
                need: set[tuple[str, tuple[int, ...]]] = set()
                for s in seqs:
                    need.add((s["cache_mode"], tuple(s["start_version"])))
                    for e in s["elements"]:
                        if e["op"] == "edit":
                            need.add((s["cache_mode"], tuple(e["version"])))
                need.add(("fgcache" if base else "plain", (1, 1, 0)))
                need.add(("plain", (1, 1, 0)))
                table: dict[str, Any] = {}
                frame_lengths: dict[str, int] = {}
                exp_tasks = [{"fn": T_EXP, "args": {"cache_mode": m, "version": list(v), "base_cache": base if m == "fgcache" else None},
                              "_timeout": 600} for m, v in sorted(need, key=lambda x: (x[0] != "plain", x[1]))]
                for t, r in pool.imap(iter(exp_tasks), timeout=600):
                    k = f"{t['args']['cache_mode']}:{F.vid(t['args']['version'])}"
                    if not r.get("ok") or not r["res"].get("ok"):
                        ctx.inconc("reference daemon failed for " + k)
                        ctx.extra.setdefault("reference_failures", []).append({"key": k, "res": str(r)[:1500]})
                        continue
                    table[k] = {"rc": r["res"]["rc"], "out": r["res"]["out"], "err": r["res"]["err"]}
                    frame_lengths.update(r["res"].get("frame_lengths") or {})
                outs = [v["out"] for k, v in table.items() if k.startswith("plain:")]
                if len(set(outs)) != len(outs):
                    ctx.inconc("project versions are not pairwise distinguishable by output")
                ctx.extra["reference_results"] = len(table)
                ctx.extra["request_frame_lengths"] = frame_lengths
                seqs = [s for s in seqs if f"{s['cache_mode']}:{F.vid(s['start_version'])}" in table and all(
                    f"{s['cache_mode']}:{F.vid(e['version'])}" in table for e in s["elements"] if e["op"] == "edit")]
                if not quick and frame_lengths and base:
                    sweep = list(F.gen_cut_sweep(F.REQ_KINDS, frame_lengths))
                    if scale < 1:
                        sweep = sweep[: max(3, int(len(sweep) * scale))]
                    seqs += sweep
                    ctx.extra["cut_sweep"] = {"sequences": len(sweep), "all_offsets_of": F.REQ_KINDS if scale >= 1 else "truncated by VERIF_SCALE"}

                # ---- phase 1: everything else in one stream (long tasks first) -------------------------
                seqs.sort(key=lambda s: (s["cache_mode"] != "plain", s["k"]))
                stop_tasks = [{"fn": T_STOP, "args": {"how": how, "after_check": ac, "cache_mode": cm,
                                                      "base_cache": base if cm == "fgcache" else None},
                               "_kind": "stop", "_timeout": 600}
                              for _ in range(stop_reps) for how in STOP_PATHS
                              for ac, cm in ((False, "fgcache"), (True, "fgcache"), (True, "plain")) if not (cm == "fgcache" and base is None)]
                tasks = itertools.chain((seq_task(s, table, base if s["cache_mode"] == "fgcache" else None) for s in seqs),
                                        stop_tasks, framing_tasks(quick, scale))
                for t, r in pool.imap(tasks, timeout=900):
                    kind = t["_kind"]
                    if not r.get("ok"):
                        ctx.inconc(f"runner:{kind}:" + ("timeout" if r.get("timeout") else "died" if r.get("died") else str(r.get("exc"))[:80]))
                        if r.get("tb"):
                            ctx.extra.setdefault("harness_errors", []).append(r["tb"][-800:])
                        continue
                    res = r["res"]
                    if kind == "seq":
                        n_a_nontriv += handle_seq(ctx, t, res, pending)
                    elif kind == "stop":
                        handle_stop(ctx, t, res)
                    else:
                        n_b_nontriv += handle_framing(ctx, t, res)

                # ---- phase 2: attribute differing later checks with fault-free twins ------------------
                if pending:
                    twins: dict[int, dict[str, Any]] = {}
                    for t, ev, key, what in pending:
                        k = t["args"]["seq"]["k"]
                        if k not in twins:
                            tw = dict(t)
                            tw["args"] = dict(t["args"], strip_faults=True, cli_final=False,
                                              restart_after=t.get("_restart_after", []))
                            twins[k] = tw
                    twin_res: dict[int, dict[int, bool]] = {}
                    for t, r in pool.imap(iter(twins.values()), timeout=900):
                        k = t["args"]["seq"]["k"]
                        if r.get("ok"):
                            twin_res[k] = {e["i"]: bool(e["check_cmd"]["equal"]) for e in r["res"]["events"] if "check_cmd" in e and "i" in e}
                    for t, ev, key, what in pending:
                        k = t["args"]["seq"]["k"]
                        tr = twin_res.get(k)
                        i = ev.get("i", max(tr) if tr else -1)
                        if tr is None or i not in tr:
                            ctx.inconc("twin run failed: differing check not attributed")
                        elif tr[i]:
                            ctx.violation(key, what + " (the fault-free twin run gives the expected output)", witness_of(t, ev))
                        else:
                            ctx.inconc("differing check also differs without faults (owner: C03)")
                            ctx.extra.setdefault("foreign_incidents", []).append({"owner": "C03", "case": k, "witness": what[:200]})
        finally:
            ctx.extra["stray_processes_killed"] = kill_strays(wd)
    ctx.extra["part_a_nontrivial"] = n_a_nontriv
    ctx.extra["part_b_nontrivial"] = n_b_nontriv
    # floors at roughly 35-45 % of what the unchanged tree yields (quick: ~480 + ~2950 distinct non-trivial, ~86 000 evaluations)
    full = scale >= 1
    ctx.floor_nontrivial = n_seq + ((1000 if quick else 10000) if full else 0)
    ctx.floor_evaluations = n_seq + ((40000 if quick else 250000) if full else 0)
    if n_a_nontriv < n_seq:
        ctx.inconc("part (a) decided too few fault probes")
        ctx.floor_nontrivial = 10 ** 9
    if n_b_nontriv < 100:
        ctx.inconc("part (b) ran too few non-trivial segmentations")
        ctx.floor_nontrivial = 10 ** 9


# ---------------------------------------------------------------------------------------------
def handle_seq(ctx: common.Ctx, t: dict[str, Any], res: dict[str, Any], pending: list[Any]) -> int:
    seq = t["args"]["seq"]
    nontriv = 0
    ctx.cell("a:sequences")
    ctx.cell("a:daemons-started", res.get("daemons", 0))
    if res.get("subreaper") is False:
        ctx.inconc("sub-reaper unavailable: exits observed via /proc only", 0)
    restart_after: list[int] = []
    for ev in res["events"]:
        op = ev["op"]
        if op == "start":
            ctx.inconc("daemon start or fault-free baseline failed" + (" (baseline differs from reference)" if ev.get("baseline_mismatch") else ""))
            ctx.extra.setdefault("baseline_failures", []).append(str(ev)[:1200])
            continue
        if op == "edit":
            ctx.cell("a:edits")
            continue
        if op in ("check", "cli-final"):
            if ev.get("watchdog"):
                ctx.inconc("cli probe watchdog")
                continue
            ctx.count()
            ctx.cell(f"a:later-{op}|after-{min(ev.get('faults_survived', 0), 3)}-survived-faults")
            ck = ev["check_cmd"]
            if op == "cli-final" and ev.get("status_rc") != 0:
                ctx.violation("later-request-affected:cli:dmypy-status:" + F.classify_probe_text(ev.get("status_out", "")),
                              f"`dmypy status` (fresh process) failed at the end of a sequence: {ev.get('status_out')!r}", witness_of(t, ev))
            if not ck["equal"]:
                if not ev.get("faults_survived"):
                    ctx.inconc("later check differs although no fault preceded it on this daemon (owner: C03)")
                    continue
                text = ck["out"] + ck["err"]
                cls = "output-differs" if ck["rc"] in (0, 1) and ck["out"] else "no-result:" + F.classify_probe_text(text)
                key = f"later-request-affected:explicit:dmypy-{ck['mode']}:{cls}"
                what = (f"`dmypy {ck['mode']}` after survived faults (last: {ev.get('last_fault')}) differs from the fault-free result: "
                        f"rc={ck['rc']} (expected {ck['expected_rc']}) {text[:200]!r}")
                if op == "cli-final":
                    ev = dict(ev, i=len(seq["elements"]))
                pending.append((t, ev, key, what))
            elif ev.get("faults_survived"):
                nontriv += 1
                ctx.nontriv("later-check", seq["k"], ev.get("i"), op)
            continue
        if op != "fault":
            continue
        f = ev["fault"]
        label = F.fault_label(f)
        if ev.get("not_injected"):
            ctx.inconc("fault not injected: " + str(ev["hostile"].get("skipped") or "connect failed")[:60])
            continue
        p = ev["probe"]
        ctx.count()
        ctx.cell(f"a:family:{F.FAMILY[f['kind']]}|{ev['cache_mode']}{'|verbose' if ev['verbose'] else ''}")
        ctx.cell(f"a:position|{min(ev['faults_survived_before'], 3)}-faults-survived-before")
        outcome = "died" if p.get("died") else "unresponsive" if p.get("unresponsive") else "survived"
        ctx.cell(f"a:outcome:{outcome}")
        ctx.cell(f"a:fault:{label}|{outcome}")
        decided = p.get("died") or (p.get("check_cmd") is not None and bool(p["check_cmd"].get("expected_out")))
        if decided:
            nontriv += 1
            ctx.nontriv("fault", label, ev["hostile"].get("cut_at"), tuple(ev["version"]), (p.get("check_cmd") or {}).get("mode"),
                        ev["cache_mode"], ev["verbose"], ev["faults_survived_before"])
        if p.get("died") or p.get("unresponsive"):
            restart_after.append(ev["i"])
        if not p.get("unresponsive") and not p.get("died") and any("timed out" in x for x in p.get("barrier_failures") or []):
            ctx.inconc("status request hit the watchdog once and was served on retry")
        keys = F.classify_event(ev)
        for key, what in keys:
            if key.startswith("later-request-affected") and key.endswith("output-differs"):
                t["_restart_after"] = list(restart_after)
                pending.append((t, ev, key, what))
            else:
                ctx.violation(key, what, witness_of(t, ev))
        if not keys and len(ctx.samples) < 5 and p.get("check_cmd"):
            ctx.sample({"sequence": seq["k"], "fault": label, "hostile_client_saw": str(ev["hostile"])[:200], "daemon": outcome,
                        "probe": p["check_cmd"]["mode"], "probe_first_line": p["check_cmd"]["out"].splitlines()[0][:120]})
    t["_restart_after"] = restart_after
    return nontriv


def handle_stop(ctx: common.Ctx, t: dict[str, Any], res: dict[str, Any]) -> None:
    how = res["how"]
    cellname = f"c:stop:{how}|{'after-check' if res['after_check'] else 'before-first-check'}|{res['cache_mode']}"
    if res.get("inconclusive"):
        ctx.inconc("stop path: " + res["inconclusive"])
        return
    if not res.get("exited"):
        if how in ("SIGINT", "SIGTERM", "stop-cli", "stop-inproc", "stop-unread", "idle-timeout"):
            ctx.inconc(f"stop path {how}: process still running after the 60 s watchdog")
        else:
            ctx.cell(cellname + "|survived")
        return
    ctx.cell(cellname + "|" + res.get("how_exited", "?"))
    if how in NOT_JUDGED:
        ctx.cell("c:not-judged:unreachable-by-design")
        ctx.extra.setdefault("unreachable_by_design", {})[how] = {
            "reason": NOT_JUDGED[how], "status_file_left": bool(res.get("names_dead_pid")),
            "dmypy_status_after": (res.get("dmypy_status_after") or {}).get("err", "")[:160]}
        return
    ctx.count()
    ctx.nontriv("stop", how, res["after_check"], res["cache_mode"])
    if res.get("names_dead_pid"):
        if how in ("crash-in-command", "malformed-stop"):
            cmd = ((res.get("action") or {}).get("request") or {}).get("command")
            key = f"status-file-left:after-death:command={cmd if isinstance(cmd, str) else '-'}:{F.death_site(res.get('log', ''))}"
        else:
            key = f"status-file-left:{how}"
        ctx.violation(key, f"daemon process exited ({res.get('how_exited')}) via '{how}' but the status file still names its pid "
                           f"(dmypy status then says: {((res.get('dmypy_status_after') or {}).get('err') or '').strip()[:120]!r})",
                      {"task": {"fn": t["fn"], "args": t["args"]}, "observed": res})
    elif len(ctx.samples) < 8:
        ctx.sample({"stop_path": how, "exited": res.get("how_exited"), "status_file_after_exit": res["status_file"]})


def handle_framing(ctx: common.Ctx, t: dict[str, Any], res: dict[str, Any]) -> int:
    kind = t["_kind"]
    ctx.count(res["evals"])
    layer = {"framing-ex": "scripted-exhaustive", "framing-s": "scripted-sampled", "framing-p": "socketpair"}[kind]
    for c, n in res["cells"].items():
        ctx.cell(f"b:{layer}:{c}" if kind == "framing-ex" else f"b:{c}", n)
    if kind == "framing-ex":
        ex = ctx.extra.setdefault("framing_exhaustive", {"streams": 0, "segmentations": 0, "nontrivial_segmentations": 0, "max_stream_bytes": 0})
        ex["streams"] += 1
        ex["segmentations"] += res["evals"]
        ex["nontrivial_segmentations"] += res["nontriv"]
        ex["max_stream_bytes"] = max(ex["max_stream_bytes"], res["stream_len"])
        for c in res["cells"]:
            if c not in ("whole", "at-boundary"):
                ctx.nontriv("framing-ex", tuple(res["sizes"]), c)
        if res["sizes"] == [1, 1] and not res["n_bad"]:
            ctx.sample({"framing": "all %d segmentations of the %d-byte stream of two 1-byte messages delivered [m0, m1] then EOF"
                        % (res["evals"], res["stream_len"])})
    else:
        for fp in res.get("fps", []):
            ctx.nontriv("framing", fp)
        if res.get("n_inconclusive"):
            ctx.inconc("socketpair watchdog / io error", res["n_inconclusive"])
    for b in res["bad"]:
        if b["verdict"] == "inconclusive":
            continue
        ctx.violation(f"framing:{b['verdict']}:{layer.split('-')[0]}",
                      f"messages written with write_bytes did not arrive intact ({b['verdict']}) under segmentation class {b.get('seg_class') or b.get('mode')}",
                      {"task": {"fn": t["fn"], "args": t["args"]}, "case": b})
    return res["nontriv"]


# ---------------------------------------------------------------------------------------------
def replay(ctx: common.Ctx, rep: dict[str, Any]) -> int:
    """Re-execute the task of one witness against the current tree and print what is observed now."""
    import json
    task = rep["witness"]["task"]
    with common.workdir("C16r") as wd:
        try:
            if task["args"].get("base_cache"):
                task["args"]["base_cache"] = build_base_cache(wd)
            with Pool(n=1, env=common.base_env(VERIF_POOL_ROOT=wd)) as pool:
                (_, r), = pool.map([{"fn": task["fn"], "args": task["args"]}], timeout=900)
        finally:
            kill_strays(wd)
    if not r.get("ok"):
        print("replay did not run:", str(r)[:2000])
        return 2
    res = r["res"]
    keys: list[str] = []
    if task["fn"] == T_SEQ:
        for ev in res["events"]:
            if ev.get("op") == "fault" and "probe" in ev:
                ks = [k for k, _ in F.classify_event(ev)]
                keys += ks
                print(f"element {ev['i']}: {F.fault_label(ev['fault'])} -> {ks or 'survived, probes as expected'}")
    elif task["fn"] == T_STOP:
        print(json.dumps({k: res.get(k) for k in ("how", "exited", "how_exited", "status_file", "names_dead_pid")}, indent=1))
        if res.get("names_dead_pid"):
            keys.append("status-file-left")
    else:
        print(json.dumps(res.get("bad"), indent=1)[:3000])
        keys += [b["verdict"] for b in res.get("bad", []) if b["verdict"] != "inconclusive"]
    want = rep["key"]
    hit = any(k == want or want.startswith(k) or k in want for k in keys)
    print(f"recorded key: {want}\nreproduced: {hit}")
    return 1 if hit else 0
