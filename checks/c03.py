"""C03 - the daemon's fine-grained updates equal a full check after every edit.

Oracle: the batch checker run on the same files (typeshed-only base cache, so every user module is
analysed from source). Workload: histgen histories driven through a real dmypy_server.Server
(check / recheck / recheck --update --remove; following imports and follow_imports=error/skip)."""

from __future__ import annotations

import os
from typing import Any, Iterator

from vlib import common, corpus, histgen
from vlib.pool import Pool


def _codes(lines: list[str]) -> list[str]:
    import re
    out = set()
    for ln in lines:
        m = re.search(r"\[([a-z0-9-]+)\]$", ln.strip())
        out.add(m.group(1) if m else ("note" if ": note: " in ln else "nocode"))
    return sorted(out)[:3]


def classify_diff(st: dict[str, Any]) -> str:
    """Mechanism key of a daemon-vs-full-run difference (never a case hash)."""
    if st.get("equal_mod_once"):
        return "only_once-note-placement"
    diffs = st.get("diffs") or []
    ds = st.get("dstatus", st.get("status"))
    os_ = st.get("ostatus", (st.get("oracle") or {}).get("status") if isinstance(st.get("oracle"), dict) else None)
    if not diffs and st.get("status_equal") is False:
        return f"status-only:{ds}-vs-{os_}"
    miss = [x for d in diffs for x in d["only_b"]]
    extra = [x for d in diffs for x in d["only_a"]]
    if os_ == 2 and miss and not extra:
        return "while-blocked:daemon-omits-nonblocking-diagnostics"
    if os_ == 2 or ds == 2:
        return f"blocker-handling:d{ds}-o{os_}:missing={','.join(_codes(miss))}:extra={','.join(_codes(extra))}"
    if miss and not extra:
        return "daemon-missing:" + ",".join(_codes(miss))
    if extra and not miss:
        return "daemon-stale-extra:" + ",".join(_codes(extra))
    if not miss and not extra:
        return "order-within-file"
    return "daemon-differs:missing=" + ",".join(_codes(miss)) + ":extra=" + ",".join(_codes(extra))


# definition kinds for the exploration slice: enums (stale narrowing after a member is added) and protocols (mismatch notes
# printed without `self` by the daemon) are listed defect classes of the unchanged tree and stay in the core histories
SAFE_KINDS = [k for k in histgen.DEF_KINDS if k not in ("enum", "protocol", "gnamedtuple", "gtypeddict")]
SAFE_OPS = ["sig", "body", "body_err", "extra", "add_def", "add_use", "equal_size", "touch", "base_change", "drop_uses"]


def gen(ctx: common.Ctx, n_hist: int, steps: tuple[int, int], explore: bool = False) -> Iterator[dict[str, Any]]:
    """core (explore=False): seed-independent histories over ALL edit operators (known daemon defects are listed per
    history+step); exploration (explore=True): VERIF_SEED-dependent histories in the sub-space where the unchanged
    tree has been silent over seed sweeps (content edits, cycle-free import graph, imports followed)."""
    tag = ("C03x", ctx.seed) if explore else ("C03", "core" if ctx.tier == "quick" else "tcore")
    for k in range(n_hist):
        r = (common.rng_for if explore else common.rng_fixed)(*tag, "h", k)
        n = r.randint(*steps)
        follow = "normal" if explore else r.choice(["normal", "normal", "error", "skip"])
        stream = "safe" if explore else ("content" if k % 3 else "structure")
        h = histgen.history((*tag, k), fixed=not explore, n_steps=n, n_modules=r.randint(3, 7), cycles=not explore,
                            ops=SAFE_OPS if explore else (histgen.CONTENT_OPS if stream == "content" else None),
                            packages=not explore, import_forms=["import", "from", "fromas"] if explore else None,
                            kinds=SAFE_KINDS if explore else None, revert_p=0.0 if explore else 0.12)
        modes = ["check"] + [r.choice(["check", "recheck", "recheck"] + (["recheck-explicit"] if follow != "normal" else []))
                             for _ in range(n - 1)]
        flags = [] if follow == "normal" else [f"--follow-imports={follow}"]
        if r.random() < 0.3:
            flags += r.choice([["--strict"], ["--warn-unreachable"], ["--disallow-any-generics"], ["--no-implicit-reexport"],
                               ["--python-version", "3.10"], ["--strict-equality"]])
        targets = ["main.py"] if follow == "normal" else ["."]
        yield {"fn": "vlib.tasks.daemon:run_history",
               "args": {"versions": h["versions"], "flags": flags, "targets": targets, "modes": modes,
                        "consistency": ctx.tier == "thorough" and k % 5 == 0, "mtime_back": h["mtime_back"], "deps_monitor": True},
               "_k": ("x" if explore else "core" if ctx.tier == "quick" else "tcore") + str(k), "_ops": h["ops"], "_follow": follow, "_explore": explore}


def gen_propagation(ctx: common.Ctx) -> Iterator[dict[str, Any]]:
    """Deterministic matrix: a target acquires a dependency only through re-checking (the type flowing into it changes
    class), then exactly that dependency changes.  a uses b.g(); b.g returns c.X or c.Y; d uses both classes directly."""
    forms = {
        "call-chain-in-function": "import b\ndef use() -> int:\n    return b.g().meth()\n",
        "top-level": "import b\nv = b.g().meth()\nreveal_type(v)\nw: int = b.g().attr\n",
        "attribute-via-local": "import b\ndef use() -> int:\n    x = b.g()\n    return x.attr\n",
        "method-of-class": "import b\nclass K:\n    def m(self) -> int:\n        return b.g().meth() + b.g().attr\n",
        "from-import": "from b import g\ndef use() -> int:\n    r = g()\n    return r.meth() + r.attr\n",
    }

    def files(form: str, ret: str, xk: str, yk: str) -> dict[str, str]:
        val = {"int": "0", "str": "''"}
        c = "".join(f"class {n}:\n    attr: {k} = {val[k]}\n    def meth(self) -> {k}:\n        return {val[k]}\n" for n, k in (("X", xk), ("Y", yk)))
        return {"main.py": "import a\nimport d\n", "a.py": forms[form], "b.py": f"import c\ndef g() -> c.{ret}:\n    return c.{ret}()\n", "c.py": c,
                "d.py": "import c\ndef hx(x: c.X) -> int:\n    return x.meth() + x.attr\ndef hy(y: c.Y) -> int:\n    return y.meth() + y.attr\n"}

    walks = {"w1": [("X", "int", "int"), ("Y", "int", "int"), ("Y", "int", "str"), ("Y", "int", "int"), ("X", "int", "int"), ("X", "str", "int"), ("X", "int", "int")],
             "w2": [("X", "int", "int"), ("Y", "int", "int"), ("X", "int", "int"), ("X", "str", "int"), ("Y", "str", "int"), ("Y", "str", "str"), ("Y", "int", "int")]}
    for form in forms:
        for wname, walk in walks.items():
            for follow in ("normal", "error", "skip"):
                for mode in ("check", "recheck"):
                    versions = [files(form, *w) for w in walk]
                    flags = [] if follow == "normal" else [f"--follow-imports={follow}"]
                    yield {"fn": "vlib.tasks.daemon:run_history",
                           "args": {"versions": versions, "flags": flags, "targets": ["main.py"] if follow == "normal" else ["."],
                                    "modes": ["check"] + [mode] * (len(walk) - 1), "deps_monitor": True},
                           "_k": f"prop:{form}:{wname}:{follow}:{mode}", "_ops": [["init"]] + [["sig"]] * (len(walk) - 1), "_follow": follow}


def gen_corpus(ctx: common.Ctx, n: int) -> Iterator[dict[str, Any]]:
    """File versions of the repository's fine-grained scenarios as edit vocabulary, in shuffled orders."""
    cases = [c for c in corpus.load(["fine-grained*.test"]) if c.steps and not corpus.uses_fixture_only_features(c) and not c.cmd and not corpus.has_config_files(c)]
    import random
    rng = random.Random("C03-corpus-core")   # seed-independent: known daemon defects are listed per scenario+step
    rng.shuffle(cases)
    for k, c in enumerate(cases[:n]):
        r = random.Random("C03-core-" + c.id)
        ns = c.nsteps()
        vers = [c.files_at(s) for s in range(1, ns + 1)]
        order = list(range(len(vers)))
        extra = [r.randrange(len(vers)) for _ in range(r.randint(1, 3))]
        seq = order + extra
        versions = [vers[i] for i in seq]
        versions = [v for i, v in enumerate(versions) if i == 0 or v != versions[i - 1]]
        if len(versions) < 2:
            continue
        modes = ["check"] + [r.choice(["check", "recheck"]) for _ in versions[1:]]
        from checks.c20 import clean_flags
        flags = [f for f in clean_flags(c.flags) if not f.startswith(("--follow-imports", "--no-local-partial"))]
        yield {"fn": "vlib.tasks.daemon:run_history",
               "args": {"versions": versions, "flags": flags, "targets": ["main.py"], "modes": modes},
               "_k": c.id, "_ops": [["corpus"]] * len(versions), "_follow": "normal"}


def run(ctx: common.Ctx) -> None:
    quick = ctx.tier == "quick"
    n_hist, steps, n_corpus, n_expl = (110, (6, 12), 150, 60) if quick else (200, (8, 20), 350, 150)
    scale = float(os.environ.get("VERIF_SCALE", "1"))
    n_hist, n_corpus, n_expl = max(1, int(n_hist * scale)), int(n_corpus * scale), max(1, int(n_expl * scale))
    ctx.rule = ("core: fixed histgen edit histories (3-7 modules, 18 definition kinds x 26 edit operators) and shuffled corpus fine-grained "
                "versions, one daemon request per step; non-trivial step = daemon response compared with the full-run oracle "
                "AND >=1 trigger fired AND >=1 target reprocessed; distinct by (edit ops, mode, follow, #targets bucket)")
    ctx.assumptions += ["logical clock: source mtimes advance 10 s per step", "oracle = batch mypy with typeshed-only base cache",
                        "daemon driven through Server.cmd_check/cmd_recheck in-process (no socket; C16 covers the channel)"]
    ctx.assumptions += ["core workload is seed-independent (the daemon's known defects are listed per history+step); VERIF_SEED drives the exploration slice"]
    ctx.floor_nontrivial = max(2, int(n_hist * 1.0))
    ctx.floor_evaluations = n_hist * 3
    with common.workdir("C03") as wd:
        env = common.base_env(VERIF_POOL_ROOT=wd)
        with Pool(env=env) as pool:
            import itertools
            only = os.environ.get("VERIF_ONLY")   # triage aid: "explore" or "core"
            streams = []
            if only == "prop":
                streams += [gen_propagation(ctx)]
            elif only != "explore":
                streams += [gen(ctx, n_hist, steps), gen_corpus(ctx, n_corpus), gen_propagation(ctx)]
            if only not in ("core", "prop"):
                streams += [gen(ctx, n_expl, steps, explore=True)]
            if only:
                ctx.floor_nontrivial, ctx.floor_evaluations = 2, 2
            for t, r in pool.imap(itertools.chain(*streams), timeout=600):
                if not r.get("ok"):
                    ctx.inconc("runner:" + ("timeout" if r.get("timeout") else "died" if r.get("died") else str(r.get("exc"))[:60]))
                    continue
                res = r["res"]
                if res.get("skipped"):
                    ctx.inconc("skipped:" + res["skipped"][:40])
                    continue
                for st in res["steps"]:
                    ops = t["_ops"][st["i"]] if st["i"] < len(t["_ops"]) else ["?"]
                    if st.get("crash") or st.get("internal") or st.get("exited"):
                        ctx.inconc("daemon-internal-failure (owner: C20)")
                        ctx.extra.setdefault("foreign_incidents", []).append(
                            {"owner": "C20", "case": t["_k"], "witness": (st.get("crash") or {}).get("key") or str(st.get("internal"))[:120]})
                        break
                    if "oracle" not in st:
                        continue
                    if st["oracle"].get("failed"):
                        ctx.inconc("oracle-internal-failure (owner: C20)")
                        continue
                    ctx.count()
                    ntarg = len(st.get("processed_targets") or [])
                    for op in ops:
                        ctx.cell(f"op:{op.split(':')[0]}|{st['mode']}|{t['_follow']}")
                    if st.get("triggered") and ntarg:
                        ctx.nontriv(tuple(ops), st["mode"], t["_follow"], min(ntarg, 6), tuple(st.get("updated_modules") or [])[:3])
                    if st.get("consistency", "ok") not in ("ok",) and str(st.get("consistency")).startswith("FAILED"):
                        # observation only: mypy.server.mergecheck is a debugging aid the repository's own tests keep switched
                        # off (CHECK_CONSISTENCY = False); it fires on most histories of the unchanged tree and says nothing
                        # about responses
                        ctx.cell("mergecheck-reports-duplicate-ast-nodes")
                    dm = st.get("deps_monitor")
                    if dm:
                        ctx.extra["deps_monitor_edges_checked"] = ctx.extra.get("deps_monitor_edges_checked", 0) + dm.get("edges", 0)
                        ctx.extra["deps_monitor_histories_checked"] = ctx.extra.get("deps_monitor_histories_checked", 0) + (1 if dm.get("edges") else 0)
                        if dm.get("missing"):
                            # observation, not a verdict: a missing edge is latent staleness (no response differs yet); the
                            # propagation matrix and the histories decide the property on responses
                            ctx.cell("deps-map-lacks-an-edge-a-fresh-daemon-derives")
                            obs = ctx.extra.setdefault("deps_map_missing_edges_observed", [])
                            if len(obs) < 10:
                                obs.append({"history": t["_k"], "step": st["i"], "edges": dm["missing"][:3]})
                    if st.get("equal"):
                        if st["i"] and len(ctx.samples) < 6 and st["out"]:
                            ctx.sample({"history": t["_k"], "step": st["i"], "ops": ops, "mode": st["mode"],
                                        "targets_reprocessed": ntarg, "first_line": st["out"].splitlines()[0][:140]})
                        continue
                    key = classify_diff(st)
                    if key not in ("only_once-note-placement", "while-blocked:daemon-omits-nonblocking-diagnostics", "order-within-file"):
                        key = histgen.op_class(ops) + "|" + key
                    ctx.violation(key, f"daemon response differs from full run at step {st['i']} (ops {ops}, mode {st['mode']})",
                                  {"task": t, "step": st["i"], "daemon": st["out"], "oracle": st["oracle"]["out"],
                                   "dstatus": st["status"], "ostatus": st["oracle"]["status"], "diffs": st.get("diffs")},
                                  case=f"{t['_k']}@{st['i']}")
                    ctx.cell("histories_cut_at_first_violation")
                    break
