"""C12 - static models of Python's runtime rules agree exactly with CPython.

Four reference-model monitors, CPython itself being the model; each has its own counters, its own accept/reject
non-triviality and its own mechanism-key prefix:

* call-binding  (signature, call) pairs: the real mypy reports a call-arg family diagnostic on the call line  <=>
                really calling the function raises TypeError. Plus a recording contract on
                ExpressionChecker.check_argument_count during corpus runs (every decidable observed shape is replayed
                against a real function call).
* mro           TypeInfo.mro / "Cannot determine consistent MRO" of the real build (and mypy.mro.calculate_mro called
                directly)  vs  type(name, bases, {}).__mro__ / TypeError.
* reach         Block.is_unreachable of `if <cond>` in the real build (both parsers) and infer_condition_value called
                directly  vs  eval(cond) with a fake `sys` for the configured target.
* fold          every outermost constant_fold_expr result + Var.final_value in the real build, and mypyc's
                constant_fold_expr during the real IR build  vs  eval().
"""

from __future__ import annotations

import ast
import itertools
import os
import re
from typing import Any, Iterator

from vlib import c12_gen as G
from vlib import common, corpus
from vlib.pool import Pool

T = "vlib.tasks.c12_tasks:"
SUBS = ("call", "mro", "reach", "fold")


class Sub:
    """Per-sub-monitor accounting (evaluations, agreeing accepts / rejects, distinct non-trivial cases)."""

    def __init__(self, ctx: common.Ctx) -> None:
        self.ctx = ctx
        self.n = {s: {"evaluations": 0, "both_accept": 0, "both_reject": 0, "nontrivial": set(), "violations": 0}
                  for s in SUBS}

    def ev(self, sub: str, n: int = 1) -> None:
        self.n[sub]["evaluations"] += n
        self.ctx.count(n)

    def agree(self, sub: str, accept: bool, *fp: Any, nontrivial: bool = True) -> None:
        self.n[sub]["both_accept" if accept else "both_reject"] += 1
        if nontrivial:
            f = common.fingerprint(sub, accept, *fp)
            self.n[sub]["nontrivial"].add(f)
            self.ctx.nontrivial.add(f)

    def viol(self, sub: str, key: str, what: str, witness: dict[str, Any]) -> None:
        self.n[sub]["violations"] += 1
        self.ctx.violation(key, what, witness)


# ================================================================================================
# 1. call binding
# ================================================================================================

FAMILY_MISC = (re.compile(r'^Extra argument ".*" from \*\*args'),
               re.compile(r'gets multiple values for keyword argument "'),
               re.compile(r"^Too (many|few) (positional )?arguments"))
KIND_WORD = {"pos": "positional", "kw": "keyword", "star": "*tuple", "td": "**TypedDict"}


def in_family(code: str, msg: str) -> bool:
    """Arity/keyword diagnostics: error code call-arg, or the two uncoded messages of the same family (table taken from
    mypy/messages.py: too_many_arguments_from_typed_dict, duplicate_argument_value)."""
    return code == "call-arg" or (code in ("misc", "") and any(p.search(msg) for p in FAMILY_MISC))


RT_TEMPLATES = [
    (re.compile(r"got multiple values for argument '(\w+)'"), "multiple-values-for-argument"),
    (re.compile(r"got multiple values for keyword argument '(\w+)'"), "multiple-values-for-keyword-argument"),
    (re.compile(r"got an unexpected keyword argument '(\w+)'"), "unexpected-keyword-argument"),
    (re.compile(r"got some positional-only arguments passed as keyword arguments: '(\w+)"), "positional-only-passed-as-keyword"),
    (re.compile(r"missing \d+ required positional argument"), "missing-positional"),
    (re.compile(r"missing \d+ required keyword-only argument"), "missing-keyword-only"),
    (re.compile(r"takes (from )?\d+ (to \d+ )?positional arguments? but \d+ (were|was) given"), "too-many-positional"),
]


def classify_call(params: list[tuple[str, str | None]], actuals: list[list[Any]], mypy_msgs: list[list[str]],
                  rt: str | None, crash: dict[str, Any] | None = None) -> str:
    """Mechanism key of a call-binding disagreement. params = [(kind letter P/K/V/N/W, name)], actuals in generator form."""
    if crash:
        return (f"call-binding:internal-error:{crash.get('exc')}@{crash.get('file')}:{crash.get('func')}"
                f":cpython-{'rejects' if rt is not None else 'accepts'}")
    kinds = "+".join(sorted({KIND_WORD.get(a[0], "?") for a in actuals})) or "none"
    if rt is not None:
        for rx, name in RT_TEMPLATES:
            m = rx.search(rt)
            if not m:
                continue
            if m.lastindex is None or name == "too-many-positional":
                return f"call-binding:false-accept:{name}:actuals={kinds}"
            arg = m.group(m.lastindex)
            pidx = next((i for i, (_k, n) in enumerate(params) if n == arg), None)
            pk = params[pidx][0] if pidx is not None else "-"
            via: list[str] = []
            for a in actuals:
                if a[0] == "kw" and a[1] == arg:
                    via.append("keyword")
                elif a[0] == "td" and a[1] is not None and arg in a[1]:
                    via.append("**TypedDict")
            if name == "multiple-values-for-argument" and pidx is not None:
                # which positional actual fills that parameter
                flat: list[str] = []
                for a in actuals:
                    if a[0] == "pos":
                        flat.append("positional")
                    elif a[0] == "star":
                        flat += ["*tuple"] * int(a[1] or 0)
                if pidx < len(flat):
                    via.append(flat[pidx])
            uniq = sorted(set(via))
            vias = "+".join(uniq) if len(uniq) > 1 or len(via) < 2 else f"{uniq[0]}-twice"
            if name == "multiple-values-for-keyword-argument":
                # where mypy's mapping puts a name that is not a named formal
                lands = {"-": "**kwargs", "P": "**kwargs", "W": "**kwargs", "V": "*args"}.get(pk, "formal-" + pk)
                return f"call-binding:false-accept:{name}:lands-in={lands}:via={vias or '?'}"
            return f"call-binding:false-accept:{name}:param-kind={pk}:via={vias or '?'}"
        return f"call-binding:false-accept:other-TypeError:actuals={kinds}"
    tmpls = sorted({re.sub(r'"[^"]*"', '"_"', re.sub(r' (for|in call to) "[^"]*"', "", m[1])) for m in mypy_msgs
                    if in_family(m[0], m[1])})
    variadic = "+".join(sorted({KIND_WORD[a[0]] for a in actuals if a[0] in ("star", "td")})) or "none"
    return f"call-binding:false-reject:{(tmpls or ['?'])[0][:70]}:variadic-actuals={variadic}"


def call_cells(sub: Sub, params_kinds: str, actuals: list[list[Any]], accept: bool) -> None:
    kinds = "+".join(sorted({KIND_WORD.get(a[0], "?") for a in actuals})) or "none"
    sub.ctx.cell(f"call:actuals={kinds}:{'accept' if accept else 'reject'}")
    sub.ctx.cell(f"call:formal-kinds={''.join(sorted(set(params_kinds))) or 'none'}")


def gen_call_tasks(ctx: common.Ctx, exh: list[tuple[int, int]], n_random: int, per: int = 400) -> Iterator[dict[str, Any]]:
    sigs = G.all_signatures(4)
    seen: set[tuple[Any, Any]] = set()

    def batches(it: Iterator[tuple[Any, Any]], tag: str) -> Iterator[dict[str, Any]]:
        buf: list[tuple[Any, Any]] = []
        for c in it:
            if c in seen:
                continue
            seen.add(c)
            buf.append(c)
            if len(buf) >= per:
                yield mk(buf, tag)
                buf = []
        if buf:
            yield mk(buf, tag)

    def mk(cases: list[tuple[Any, Any]], tag: str) -> dict[str, Any]:
        text, linenos = G.call_module(cases)
        return {"fn": T + "call_batch", "args": {"text": text, "linenos": linenos, "flags": []},
                "_kind": "call", "_cases": cases, "_tag": tag}

    def exhaustive() -> Iterator[tuple[Any, Any]]:
        for (np_, na) in exh:
            for s in sigs:
                if len(s) <= np_:
                    for c in G.all_calls(s, na):
                        yield (s, c)

    yield from batches(exhaustive(), "exhaustive")
    rng = common.rng_for("C12", "call", "random")

    def rand() -> Iterator[tuple[Any, Any]]:
        made = tries = 0
        while made < n_random and tries < n_random * 20:
            tries += 1
            s = rng.choice(sigs)
            c = (s, G.random_call(s, rng))
            if c not in seen:
                made += 1
                yield c

    yield from batches(rand(), "random")


def handle_call(sub: Sub, t: dict[str, Any], res: dict[str, Any]) -> None:
    ctx = sub.ctx
    if res.get("harness"):
        raise RuntimeError("C12 call harness: " + res["harness"])
    if res.get("fail"):
        ctx.extra.setdefault("foreign_incidents", []).append({"owner": "C20", "witness": str(res["fail"])[:300]})
    ctx.cell("call:mypy-runs", res.get("runs", 1))
    if res.get("stray"):
        raise RuntimeError(f"C12 call harness: diagnostics on prelude lines {res['stray']}")
    if res.get("kind_cells"):
        ctx.extra["call_hook_kind_vectors_max_per_worker"] = max(ctx.extra.get("call_hook_kind_vectors_max_per_worker", 0),
                                                                 len(res["kind_cells"]))
    text_lines = t["args"]["text"].splitlines()
    first = min(t["args"]["linenos"])
    for (sig, call), ln, r in zip(t["_cases"], t["args"]["linenos"], res["cases"]):
        params = [(k, n) for (k, _d), n in zip(sig, G.sig_names(sig))]
        actuals = [list(a) for a in call]
        fam = [m for m in r["mypy"] if in_family(m[0], m[1])]
        foreign = [m for m in r["mypy"] if not in_family(m[0], m[1])]
        rt = r["rt"]
        sub.ev("call")
        witness = {"signature": G.sig_src(sig, "f"), "call": G.call_src(call, "f"), "mypy_diagnostics": r["mypy"],
                   "cpython": rt if rt is not None else "call succeeded", "flags": [],
                   "module_line": text_lines[ln - 1], "tag": t["_tag"],
                   "replay_task": {"fn": T + "call_batch", "_kind": "call", "_cases": [[sig, call]], "_tag": "replay"}}
        if rt is not None and rt.startswith("!"):
            raise RuntimeError(f"C12 call harness: runtime side raised {rt} for {witness}")
        if r.get("unjudged"):
            sub.n["call"]["evaluations"] -= 1
            ctx.evaluations -= 1
            ctx.inconc("call:unjudged-after-unattributable-internal-error (owner: C20)")
            continue
        if r.get("crash"):
            witness["internal_error"] = r["crash"]
            sub.viol("call", classify_call(params, actuals, [], rt, r["crash"]),
                     f"mypy fails internally on a call CPython {'rejects with TypeError' if rt else 'accepts'}: "
                     f"{witness['signature']} | {witness['call']}", witness)
            continue
        if foreign and not fam:
            ctx.inconc("call:only-foreign-diagnostic:" + (foreign[0][0] or "nocode"))
            continue
        mypy_rejects = bool(fam)
        rt_rejects = rt is not None
        if mypy_rejects == rt_rejects:
            sub.agree("call", not rt_rejects, G.sig_id(sig), G.call_id(call))
            call_cells(sub, "".join(k for k, _ in sig), actuals, not rt_rejects)
            if len(ctx.samples) < 3 and len(call) >= 3:
                ctx.sample({"sub": "call", "signature": witness["signature"], "call": witness["call"],
                            "mypy": [m[1] for m in fam], "cpython": witness["cpython"]})
            continue
        key = classify_call(params, actuals, r["mypy"], rt)
        sub.viol("call", key, ("false accept: CPython raises TypeError, mypy reports no arity/keyword diagnostic"
                               if rt_rejects else "false reject: mypy reports an arity/keyword diagnostic, the call succeeds")
                 + f": {witness['signature']} | {witness['call']}", witness)


CORPUS_SUITES = ["check-kwargs.test", "check-varargs.test", "check-functions.test", "check-typeddict.test",
                 "check-classes.test", "check-overloading.test", "check-dataclasses.test", "check-namedtuple.test",
                 "check-callable.test", "check-generics.test", "check-functools.test", "check-python38.test",
                 "check-parameter-specification.test", "check-typevar-tuple.test", "check-protocols.test"]


def gen_corpus_tasks(ctx: common.Ctx, n: int) -> Iterator[dict[str, Any]]:
    from checks.c20 import clean_flags
    cases = [c for c in corpus.load(CORPUS_SUITES) if not corpus.uses_fixture_only_features(c) and not c.cmd]
    rng = common.rng_for("C12", "corpus")
    rng.shuffle(cases)
    for c in cases[:n]:
        yield {"fn": T + "corpus_bind", "args": {"files": c.all_files(), "flags": clean_flags(c.flags)},
               "_kind": "corpus", "_case": c.id}


KIND_LETTER = {0: "K", 1: "K", 2: "V", 3: "N", 4: "W", 5: "N"}


def handle_corpus(sub: Sub, t: dict[str, Any], res: dict[str, Any]) -> None:
    ctx = sub.ctx
    ctx.cell("call:corpus:programs")
    ctx.cell("call:corpus:calls-observed", res.get("observed", 0))
    for k, v in (res.get("undecidable") or {}).items():
        if k.startswith("monitor-error"):
            raise RuntimeError("C12 corpus contract raised inside the hook: " + k)
        ctx.cell("call:corpus:undecidable:" + k, v)
    for rec in res.get("records", []):
        sub.ev("call")
        params = [(("P" if n is None else KIND_LETTER[k]), n if n is not None else f"_p{i}")
                  for i, (k, n) in enumerate(rec["formals"])]
        rt = rec["rt"]
        if rec["ok"] == (rt is None):
            sub.agree("call", rt is None, "corpus", rec["formals"], rec["actuals"])
            ctx.cell(f"call:corpus:{'accept' if rt is None else 'reject'}")
            continue
        witness = {"corpus_case": t["_case"], "line": rec["line"], "signature_as_seen_by_check_argument_count": rec["sig"],
                   "call": rec["call"], "check_argument_count_returned": rec["ok"],
                   "cpython": rt if rt is not None else "call succeeded", "formals": rec["formals"], "actuals": rec["actuals"],
                   "files": t["args"]["files"], "flags": t["args"]["flags"],
                   "replay_task": {"fn": T + "corpus_bind", "args": t["args"], "_kind": "corpus", "_case": t["_case"]}}
        key = classify_call(params, rec["actuals"], [["call-arg", "check_argument_count returned False"]], rt)
        sub.viol("call", key.replace("call-binding:", "call-binding:corpus:", 1),
                 f"check_argument_count says {'ok' if rec['ok'] else 'not ok'} but really calling "
                 f"{rec['sig']} as {rec['call']} {'raises ' + rt if rt else 'succeeds'}", witness)


# ================================================================================================
# 2. MRO
# ================================================================================================

def gen_mro_tasks(ctx: common.Ctx, n5_step: int, n6_build: int, n6_direct: int | None) -> Iterator[dict[str, Any]]:
    """n5_step=1: every 5-class hierarchy through the full build; n6_direct=None: all 6-class ones directly."""
    buf: list[Any] = []
    for i, h in enumerate(G.all_hierarchies(5)):
        if i % n5_step:
            continue
        buf.append([list(b) for b in h])
        if len(buf) == 400:
            yield {"fn": T + "mro_batch", "args": {"hiers": buf, "flags": []}, "_kind": "mro", "_layer": "build", "_n": 5}
            buf = []
    if buf:
        yield {"fn": T + "mro_batch", "args": {"hiers": buf, "flags": []}, "_kind": "mro", "_layer": "build", "_n": 5}
    rng = common.rng_for("C12", "mro", 6)
    for k in range(0, n6_build, 300):
        hs = [[list(b) for b in G.random_hierarchy(6, rng)] for _ in range(min(300, n6_build - k))]
        yield {"fn": T + "mro_batch", "args": {"hiers": hs, "flags": []}, "_kind": "mro", "_layer": "build", "_n": 6}
    if n6_direct is None:
        it: Iterator[Any] = G.all_hierarchies(6)
    else:
        r2 = common.rng_for("C12", "mro", "6d")
        seen: set[Any] = set()

        def distinct() -> Iterator[Any]:
            tries = 0
            while len(seen) < n6_direct and tries < n6_direct * 5:
                tries += 1
                h = G.random_hierarchy(6, r2)
                if h not in seen:
                    seen.add(h)
                    yield h
        it = distinct()
    batch = 0
    while True:
        hs = [[list(b) for b in h] for h in itertools.islice(it, 20000)]
        if not hs:
            break
        batch += 1
        yield {"fn": T + "mro_direct", "args": {"hiers": hs}, "_kind": "mro", "_layer": "direct", "_n": 6, "_batch": batch}


def _cn(name: str) -> str:
    return re.sub(r"^H\d+_", "C", name)


def handle_mro(sub: Sub, t: dict[str, Any], res: dict[str, Any]) -> None:
    ctx = sub.ctx
    from vlib.tasks.c12_tasks import MRO_MSG
    layer = t["_layer"]
    if res.get("fail"):
        ctx.inconc(f"mro:{layer}:batch-failed (owner: C20)", len(t["args"]["hiers"]))
        ctx.extra.setdefault("foreign_incidents", []).append({"owner": "C20", "witness": str(res["fail"])[:300]})
        return

    def report(hier: list[list[int]], i: int, rt: Any, st_mro: Any, st_rej: bool) -> None:
        nb = len(hier[i])
        src = G.hier_src(tuple(tuple(b) for b in hier[: i + 1]), "C")
        rt_rej = isinstance(rt, str)
        witness = {"classes": src, "class": f"C{i}", "cpython": rt, "mypy_mro": st_mro, "mypy_rejected": st_rej, "layer": layer,
                   "replay_task": {"fn": T + ("mro_batch" if layer == "build" else "mro_direct"),
                                   "args": ({"hiers": [hier[: i + 1]], "flags": []} if layer == "build"
                                            else {"hiers": [hier[: i + 1]]}),
                                   "_kind": "mro", "_layer": layer, "_n": i + 1}}
        if st_rej != rt_rej:
            d = "false-reject" if st_rej else "false-accept"
            sub.viol("mro", f"mro:{d}:nbases={nb}",
                     f"class creation {'fails' if rt_rej else 'succeeds'} in CPython but mypy "
                     f"{'rejects' if st_rej else 'accepts'} the hierarchy: {'; '.join(src)}", witness)
        else:
            sub.viol("mro", f"mro:order-differs:nbases={nb}",
                     f"TypeInfo.mro {st_mro} != __mro__ {rt} for {'; '.join(src)}", witness)

    if layer == "direct":
        ctx.cell(f"mro:direct:hierarchies:n={t['_n']}", res["hierarchies"])
        sub.ev("mro", res["n"] + len(res["bad"]))
        sub.n["mro"]["both_accept"] += res["accept"]
        sub.n["mro"]["both_reject"] += res["reject"]
        for j in range(res["nontrivial"]):   # the generator yields distinct hierarchies; the last class identifies each
            f = common.fingerprint("mro-direct", t["_batch"], j)
            sub.n["mro"]["nontrivial"].add(f)
            ctx.nontrivial.add(f)
        for k, v in res["cells"].items():
            ctx.cell(k, v)
        for b in res["bad"]:
            report(b["hier"], b["index"], b["rt"], b["mro"], bool(b["rejected"]))
        if res.get("sample") and not any(isinstance(x, dict) and x.get("sub") == "mro" for x in ctx.samples):
            ctx.sample({"sub": "mro", "layer": "direct", **res["sample"]}, force=True)
        return
    ctx.cell(f"mro:build:hierarchies:n={t['_n']}", len(res["hiers"]))
    for hier, recs in zip(t["args"]["hiers"], res["hiers"]):
        for i, rec in enumerate(recs):
            if rec["rt"] == "dep-failed":
                ctx.cell("mro:skipped-base-failed-at-runtime")
                continue
            sub.ev("mro")
            rt_rej = isinstance(rec["rt"], str)
            st_rej = any(MRO_MSG in e[1] for e in rec["errs"])
            other = [e for e in rec["errs"] if MRO_MSG not in e[1]]
            if other:
                ctx.inconc("mro:foreign-diagnostic:" + other[0][0])
                continue
            nb = len(hier[i])
            want = rec["rt"] if rt_rej else [_cn(n) for n in rec["rt"]]
            got = [_cn(n) for n in (rec["mro"] or [])]
            if st_rej != rt_rej or (not rt_rej and want != got):
                report(hier, i, want, got, st_rej)
                continue
            if rt_rej:
                sub.agree("mro", False, [hier[: i + 1]])
                ctx.cell(f"mro:reject:nbases={nb}")
                continue
            sub.agree("mro", True, [hier[: i + 1]], nontrivial=nb >= 2 or len(want) >= 4)
            ctx.cell(f"mro:accept:nbases={nb}")


# ================================================================================================
# 3. version / platform conditions
# ================================================================================================

_VER_RX = re.compile(r"sys\.version_info(?:\[([^\]]*)\]|\.(major|minor))?")
_OPS_RX = re.compile(r" (==|!=|<=|>=|<|>) ")
REV = {"==": "==", "!=": "!=", "<": ">", ">": "<", "<=": ">=", ">=": "<="}


def classify_atom(cond: str) -> str:
    """Mechanism class of a single comparison: which syntactic form of the model decided it."""
    if "sys.platform" in cond:
        form = ("startswith" if ".startswith(" in cond else "endswith" if ".endswith(" in cond else
                "in" if " in " in cond else "reversed-compare" if not cond.startswith("sys.platform") else "compare")
        m = _OPS_RX.search(cond)
        return f"platform:{form}" + (f":op={m.group(1)}" if m else "")
    m = _VER_RX.search(cond)
    if not m:
        return "other"
    ops = _OPS_RX.findall(cond)
    if len(ops) != 1:
        return "version:chained-comparison"
    op = ops[0]
    left, right = cond.split(f" {op} ", 1)
    if "sys.version_info" in right:
        op = REV[op]
        other = left
    else:
        other = right
    idx = m.group(1)
    if m.group(2):
        form = "attribute"
    elif idx is None:
        form = "unbounded-upper"
    elif ":" in idx:
        parts = idx.split(":")
        form = "unbounded-upper" if parts[1].strip() == "" else "bounded-slice"
        if len(parts) == 3 and parts[2].strip() not in ("", "1"):
            form = "strided-slice"
    else:
        form = "index"
    other = other.strip()
    if other.startswith("("):
        try:
            n = len(ast.literal_eval(other))
        except Exception:
            n = -1
        rhs = f"tuple{n}"
    else:
        rhs = "int"
    return f"version:{form}:op={op}" + ("" if form == "unbounded-upper" else f":rhs={rhs}")


def static_ok(st: str, rt: str) -> bool | None:
    """None = static value unknown (never a violation); True/False = decided and right/wrong."""
    if st == "U":
        return None
    return st in ("T", "F") and st == rt


def gen_reach(ctx: common.Ctx, n_combo: int) -> tuple[list[str], dict[str, tuple[str, tuple[str, ...]]]]:
    atoms = G.version_atoms() + G.platform_atoms()
    rng = common.rng_for("C12", "reach", "combo")
    # combinations draw on a reduced atom pool so that decided operands are frequent
    pool = [a for a in atoms if re.search(r"\((3, (0|7|8|10|12|15))\)|\[[01]\] (==|>=|<) (3|10|12)$|sys\.platform", a)]
    combos = G.combine_conditions(pool, rng, n_combo)
    info = {c[0]: (c[1], c[2]) for c in combos}
    conds = atoms + [c for c in info if c not in set(atoms)]
    return conds, info


def gen_reach_tasks(ctx: common.Ctx, conds: list[str], info: dict[str, Any],
                    build_cfgs: list[tuple[tuple[int, int], str, bool]], nplat: int = 5) -> Iterator[dict[str, Any]]:
    for i, v in enumerate(G.VERSIONS):
        plats = G.PLATFORMS if nplat >= 5 else [G.PLATFORMS[(i + 2 * j) % 5] for j in range(nplat)]
        yield {"fn": T + "reach_direct", "args": {"conds": conds, "versions": [list(v)], "platforms": plats},
               "_kind": "reach", "_layer": "direct"}
    # two self-contained halves: every combination travels with the comparisons it is made of
    combos = [c for c in conds if c in info]
    atoms = [c for c in conds if c not in info]
    half = (len(atoms) + 1) // 2
    second = atoms[half:]
    have = set(second)
    second = second + [a for c in combos for a in info[c][1] if a not in have and not have.add(a)] + combos  # type: ignore[func-returns-value]
    for (v, p, native) in build_cfgs:
        for chunk in (atoms[:half], second):
            yield {"fn": T + "reach_build", "args": {"conds": chunk, "version": list(v), "platform": p, "native": native},
                   "_kind": "reach", "_layer": "build-native" if native else "build"}


def handle_reach(sub: Sub, t: dict[str, Any], res: dict[str, Any], info: dict[str, tuple[str, tuple[str, ...]]]) -> None:
    ctx = sub.ctx
    layer = t["_layer"]
    if res.get("harness"):
        raise RuntimeError("C12 reach harness: " + res["harness"])
    if res.get("fail"):
        ctx.inconc(f"reach:{layer}:build-failed (owner: C20)")
        ctx.extra.setdefault("foreign_incidents", []).append({"owner": "C20", "witness": str(res["fail"])[:300]})
        return
    conds = t["args"]["conds"]
    rows = res["rows"] if layer == "direct" else [{"version": t["args"]["version"], "platform": t["args"]["platform"],
                                                   "static": res["static"], "runtime": res["runtime"]}]
    for row in rows:
        v, p = tuple(row["version"]), row["platform"]
        ctx.cell(f"reach:{layer}:configs")
        static = dict(zip(conds, row["static"]))
        runtime = dict(zip(conds, row["runtime"]))
        for c in conds:
            st, rt = static[c], runtime[c]
            sub.ev("reach")
            ok = static_ok(st, rt)
            if ok is None:
                ctx.cell(f"reach:{layer}:unknown")
                continue
            kind = "combo" if c in info else "atom"
            if ok:
                sub.agree("reach", st == "T", c, v, p if "platform" in c else "-")
                ctx.cell(f"reach:{layer}:{kind}:{'always-true' if st == 'T' else 'always-false'}")
                if kind == "combo" and not any(isinstance(s, dict) and s.get("sub") == "reach" for s in ctx.samples):
                    ctx.sample({"sub": "reach", "condition": c, "target": f"{v[0]}.{v[1]}/{p}", "static": st, "eval": rt},
                               force=True)
                continue
            # disagreement: attribute to the constituent comparison that is itself wrong, else to the combination
            culprit = None
            if kind == "combo":
                for a in info[c][1]:
                    if a in static and static_ok(static[a], runtime[a]) is False:
                        culprit = a
                        break
            if culprit is not None:
                mech = classify_atom(culprit)
            elif kind == "combo":
                form = info[c][0]
                vals = [static.get(a, "?") for a in info[c][1]]
                mech = "boolean:" + form.format(*vals).replace(" ", "")
            else:
                mech = classify_atom(c)
            rt_args = {**t["args"], "conds": sorted({c, *(info[c][1] if c in info else ())})}
            if layer == "direct":
                rt_args.update(versions=[list(v)], platforms=[p])
            ent = _reach_pending(ctx).setdefault((c, v, p), {"mech": mech, "layers": {}, "culprit": culprit, "rt": rt})
            ent["layers"][layer] = {"static": st, "replay_task": {"fn": t["fn"], "args": rt_args, "_kind": "reach",
                                                                  "_layer": layer}}


def _reach_pending(ctx: common.Ctx) -> dict[Any, dict[str, Any]]:
    return ctx.__dict__.setdefault("_c12_reach_bad", {})


def settle_reach(sub: Sub) -> None:
    """One violation per (condition, target); a disagreement seen only through the native parser (whose reachability is
    computed by the ast_serialize front end, outside the repository) gets its own key suffix."""
    for (c, v, p), ent in _reach_pending(sub.ctx).items():
        layers = ent["layers"]
        st = next(iter(layers.values()))["static"]
        rt = ent["rt"]
        suffix = ":native-parser-only" if set(layers) == {"build-native"} else ""
        what = {"T": "always true", "F": "always false"}.get(st, f"static value {st!r}")
        how = {"T": "is true", "F": "is false", "TF": "depends on micro/releaselevel"}.get(
            rt, f"raises {rt[1:]}" if rt.startswith("!") else rt)
        first = next(iter(layers.values()))
        sub.viol("reach", f"reach:{ent['mech']}{suffix}",
                 f"mypy treats `{c}` as {what} for target {v[0]}.{v[1]}/{p}; at run time it {how}",
                 {"condition": c, "python_version": f"{v[0]}.{v[1]}", "platform": p,
                  "layers": {k: x["static"] for k, x in layers.items()}, "cpython_eval": rt,
                  "culprit_comparison": ent["culprit"], "replay_task": first["replay_task"]})


# ================================================================================================
# 4. constant folding
# ================================================================================================

FOLD_DECLS = {"FI": "3", "FN": "-7", "FF": "2.5", "FS": '"s"', "FT": "True", "FBIG": "2 ** 64", "FZ": "0"}


def fold_env() -> dict[str, Any]:
    return {k: eval(v) for k, v in FOLD_DECLS.items()}


def gen_fold_exprs(ctx: common.Ctx, n_random: int) -> tuple[list[str], list[str]]:
    d1 = [e for e in G.fold_depth1() if G.fold_guard(e)[0]]
    # depth-2 unary-under-binary over the bool/int boundary, always present (seed independent)
    d1 += [f"({u}{b}) {op} {c}" for u in ("+", "-", "~") for b in ("True", "False", "FT", "1") for op in ("+", "*", "//")
           for c in ("1", "2.0")]
    rng = common.rng_for("C12", "fold", "random")
    env = fold_env()
    names = list(FOLD_DECLS)
    out: list[str] = []
    seen = set(d1)
    tries = 0
    while len(out) < n_random and tries < n_random * 30:
        tries += 1
        e = G.random_fold_expr(rng, rng.choice((2, 2, 3, 3, 3)), names)
        if e in seen:
            continue
        cheap, _ = G.fold_guard(e, env)
        if not cheap:
            continue
        seen.add(e)
        out.append(e)
    return d1, out


def gen_fold_tasks(d1: list[str], rnd: list[str], mypyc_every: int, per: int = 600) -> Iterator[dict[str, Any]]:
    decls = [f"{k}: Final = {v}" for k, v in FOLD_DECLS.items()]
    k = 0
    for tag, exprs in (("depth1", d1), ("random", rnd)):
        for i in range(0, len(exprs), per):
            k += 1
            yield {"fn": T + "fold_batch", "args": {"exprs": exprs[i:i + per], "flags": [],
                                                    "mypyc": bool(mypyc_every) and k % mypyc_every == 0, "decls": decls},
                   "_kind": "fold", "_tag": tag}


def is_operator_expr(src: str) -> bool:
    try:
        n = ast.parse(src, mode="eval").body
    except SyntaxError:
        return False
    return not isinstance(n, (ast.Constant, ast.Name))


def op_signature(src: str) -> str:
    """top-level operator + run-time operand types of an expression (mechanism class of a folding disagreement)."""
    try:
        n = ast.parse(src, mode="eval").body
    except SyntaxError:
        return "unparsable"
    env = fold_env()

    def ty(node: ast.AST) -> str:
        ok, v = G.fold_guard(ast.unparse(node), env)
        if not ok:
            return "big"
        return "raises" if isinstance(v, BaseException) else type(v).__name__

    sym = {ast.Add: "+", ast.Sub: "-", ast.Mult: "*", ast.Div: "/", ast.FloorDiv: "//", ast.Mod: "%", ast.Pow: "**",
           ast.LShift: "<<", ast.RShift: ">>", ast.BitAnd: "&", ast.BitOr: "|", ast.BitXor: "^", ast.MatMult: "@",
           ast.USub: "-", ast.UAdd: "+", ast.Invert: "~", ast.Not: "not"}
    if isinstance(n, ast.BinOp):
        return f"op={sym.get(type(n.op), '?')}:operands={ty(n.left)},{ty(n.right)}"
    if isinstance(n, ast.UnaryOp):
        return f"op=unary{sym.get(type(n.op), '?')}:operand={ty(n.operand)}"
    if isinstance(n, ast.Name):
        return "final-name-reference"
    if isinstance(n, ast.Constant):
        return f"literal:{type(n.value).__name__}"
    return type(n).__name__


def size_exc(exc: Any) -> str:
    """OverflowError and MemoryError are the two faces of one event (an operand too large for the operation)."""
    return "Overflow|MemoryError" if exc in ("OverflowError", "MemoryError") else str(exc)


def fold_verdict(static: list[str] | None, rt: Any) -> str | None:
    """None = agree / not folded. Otherwise the kind of disagreement."""
    if static is None:
        return None
    if isinstance(rt, str):
        return "folded-where-eval-raises:" + rt[1:]
    if static[0] != rt[0]:
        return f"wrong-type:{static[0]}-for-{rt[0]}"
    if static[1] != rt[1]:
        return "wrong-value"
    return None


def handle_fold(sub: Sub, t: dict[str, Any], res: dict[str, Any], pending: list[dict[str, Any]]) -> None:
    ctx = sub.ctx
    if res.get("harness"):
        raise RuntimeError("C12 fold harness: " + res["harness"])
    if res.get("fail"):
        ctx.inconc("fold:batch-failed-without-attributable-line (owner: C20)", len(t["args"]["exprs"]))
        ctx.extra.setdefault("foreign_incidents", []).append({"owner": "C20", "witness": str(res["fail"])[:300]})
        return

    def judge(layer: str, src: str, static: list[str] | None, rt: Any, line_expr: str, extra: dict[str, Any]) -> None:
        sub.ev("fold")
        bad = fold_verdict(static, rt)
        nontriv = is_operator_expr(src)
        if bad is None:
            if static is not None:
                sub.agree("fold", True, layer, src, nontrivial=nontriv)
                ctx.cell(f"fold:{layer}:folded-equal:{static[0]}")
                if nontriv and not any(isinstance(s, dict) and s.get("sub") == "fold" and s.get("layer") == layer
                                       for s in ctx.samples) and len(src) > 12:
                    ctx.sample({"sub": "fold", "layer": layer, "expr": src, "folded": static, "eval": rt}, force=True)
            elif isinstance(rt, str):
                sub.agree("fold", False, layer, src, nontrivial=nontriv)
                ctx.cell(f"fold:{layer}:declined-and-eval-raises:{rt[1:]}")
            else:
                ctx.cell(f"fold:{layer}:declined-but-evaluable (allowed)")
            return
        pending.append({"layer": layer, "src": src, "static": static, "rt": rt, "bad": bad, "line_expr": line_expr,
                        "decls": t["args"]["decls"], **extra})

    for c in res["cases"]:
        if c.get("crash"):
            sub.ev("fold")
            cr = c["crash"]
            sub.viol("fold", f"fold:internal-error:{size_exc(cr.get('exc'))}@{cr.get('func')}"
                     + (":direct-call-only" if cr.get("confirmed_by_real_build") is False else ""),
                     f"mypy fails internally while folding `{c['expr']}` (CPython: {c['rt']})",
                     {"expr": c["expr"], "decls": t["args"]["decls"], "cpython_eval": c["rt"], "internal_error": cr,
                      "replay_task": {"fn": T + "fold_batch", "args": {**t["args"], "exprs": [c["expr"]], "mypyc": False},
                                      "_kind": "fold", "_tag": "replay"}})
            continue
        statics = [v for v in c["folds"] if v is not None]
        if c["final_value"] is not None:
            statics.append(c["final_value"])
        uniq = []
        for v in statics:
            if v not in uniq:
                uniq.append(v)
        if not uniq:
            judge("mypy", c["expr"], None, c["rt"], c["expr"], {})
        for v in uniq:
            judge("mypy", c["expr"], v, c["rt"], c["expr"], {"final_value": c["final_value"], "errs": c["errs"]})
    for s in res.get("subs", []):
        judge("mypy", s["src"], s["fold"], s["rt"], s["line_expr"], {"sub_expression": True})
    m = res.get("mypyc")
    if m is not None:
        for cr in m.get("crashed", []):
            sub.ev("fold")
            ok, v = G.fold_guard(cr["expr"], fold_env())
            sub.viol("fold", f"fold:internal-error:{size_exc(cr.get('exc'))}@{cr.get('func')}"
                     + ("" if cr.get("confirmed_by_real_ir_build") else ":direct-call-only"),
                     f"mypyc fails internally while folding `{cr['expr']}` "
                     f"(CPython: {'raises ' + type(v).__name__ if isinstance(v, BaseException) else 'evaluates it'})",
                     {"expr": cr["expr"], "decls": t["args"]["decls"], "internal_error": cr,
                      "replay_task": {"fn": T + "fold_batch", "args": {**t["args"], "exprs": [cr["expr"]], "mypyc": True},
                                      "_kind": "fold", "_tag": "replay"}})
        if m.get("fail"):
            f = m["fail"]
            if f.get("kind") == "crash":
                sub.ev("fold")
                sub.viol("fold", f"fold:internal-error:{size_exc(f.get('exc'))}@{f.get('func')}:whole-ir-build",
                         f"mypyc IR build fails internally on a module of constant expressions: {f.get('msg')}",
                         {"exprs": t["args"]["exprs"], "decls": t["args"]["decls"], "failure": f,
                          "replay_task": {"fn": T + "fold_batch", "args": t["args"], "_kind": "fold", "_tag": "replay"}})
            else:
                ctx.inconc("fold:mypyc:ir-build-unavailable:" + str(f.get("kind")))
        else:
            ctx.cell("fold:mypyc:modules")
            for r in m["records"]:
                judge("mypyc", r["src"], r["fold"], r["rt"], r["line_expr"], {"outer": r["outer"]})


def settle_fold(sub: Sub, pool: Pool, pending: list[dict[str, Any]]) -> None:
    """Shrink every disagreeing expression to its smallest disagreeing sub-expression (one more run of the real code on
    all sub-expressions), then classify by that sub-expression's operator and operand types."""
    if not pending:
        return
    ctx = sub.ctx
    pend = pending[:400]
    subexprs: list[str] = []
    for p in pend:
        try:
            tree = ast.parse(p["src"], mode="eval")
        except SyntaxError:
            continue
        for n in ast.walk(tree.body):
            if isinstance(n, (ast.BinOp, ast.UnaryOp)):
                s = ast.unparse(n)
                if s not in subexprs and s != p["src"]:
                    subexprs.append(s)
    smallest: dict[tuple[str, str], dict[str, Any]] = {}
    if subexprs:
        decls = pend[0]["decls"]
        tasks = [{"fn": T + "fold_batch", "args": {"exprs": subexprs[i:i + 500], "flags": [], "mypyc": True, "decls": decls},
                  "_kind": "fold"} for i in range(0, len(subexprs), 500)]
        for t, r in pool.imap(iter(tasks), timeout=900):
            if not r.get("ok") or r["res"].get("fail") or r["res"].get("harness"):
                continue
            res = r["res"]
            for c in res["cases"]:
                for v in ([x for x in c["folds"] if x] + ([c["final_value"]] if c["final_value"] else [])):
                    b = fold_verdict(v, c["rt"])
                    if b:
                        smallest[("mypy", c["expr"])] = {"static": v, "rt": c["rt"], "bad": b}
            for rec in (res.get("mypyc") or {}).get("records", []):
                b = fold_verdict(rec["fold"], rec["rt"])
                if b:
                    smallest[("mypyc", rec["src"])] = {"static": rec["fold"], "rt": rec["rt"], "bad": b}
    for p in pending:
        best = None
        if p in pend:
            try:
                nodes = [ast.unparse(n) for n in ast.walk(ast.parse(p["src"], mode="eval").body)
                         if isinstance(n, (ast.BinOp, ast.UnaryOp))]
            except SyntaxError:
                nodes = []
            for s in sorted(set(nodes), key=len):
                # mypyc folds through mypy.constant_fold's functions: a part mypy itself gets wrong counts for both
                hit = next(((lay, s) for lay in (p["layer"], "mypy") if (lay, s) in smallest), None)
                if hit:
                    best = (s, smallest[hit])
                    break
        src, bad = (best[0], best[1]["bad"]) if best else (p["src"], p["bad"])
        key = f"fold:{p['layer']}:{bad}:{op_signature(src)}"
        sub.viol("fold", key,
                 f"{p['layer']} folds `{p['src']}` to {p['static']} but CPython evaluates it to {p['rt']}"
                 + (f" (smallest disagreeing part: `{src}`)" if best else ""),
                 {"expr": p["src"], "layer": p["layer"], "folded": p["static"], "cpython_eval": p["rt"], "decls": p["decls"],
                  "line_expr": p["line_expr"], "smallest_disagreeing_subexpression": src if best else None,
                  "replay_task": {"fn": T + "fold_batch", "args": {"exprs": [p["line_expr"]], "flags": [],
                                                                   "mypyc": p["layer"] == "mypyc", "decls": p["decls"]},
                                  "_kind": "fold", "_tag": "replay"}})


# ================================================================================================
# driver
# ================================================================================================

def run(ctx: common.Ctx) -> None:
    quick = ctx.tier == "quick"
    scale = float(os.environ.get("VERIF_SCALE", "1"))

    def sc(n: int) -> int:
        return max(1, int(n * scale))

    only = set(filter(None, os.environ.get("VERIF_C12_ONLY", "").split(","))) or set(SUBS)
    if quick:
        call_exh, n_call_rand, n_corpus = [(3, 2)], sc(36000), sc(200)
        n5_step, n6_build, n6_direct = 1, sc(3000), sc(200000)
        n_combo = sc(2500)
        build_cfgs = [((3, 10 + i), G.PLATFORMS[i % 5], native) for i in range(6) for native in (False, True)]
        n_fold_rand, mypyc_every = sc(7000), 1
    else:
        call_exh, n_call_rand, n_corpus = [(4, 2), (3, 3)], sc(450000), sc(2500)
        n5_step, n6_build, n6_direct = 1, sc(100000), None
        n_combo = sc(12000)
        build_cfgs = [((3, m), p, native) for m in range(10, 16) for p in G.PLATFORMS for native in (False, True)]
        n_fold_rand, mypyc_every = sc(120000), 1
    if scale < 1:
        call_exh = [(2, 2)] if scale < 0.3 else call_exh[:1]
        n5_step = max(1, int(round(1 / scale)))
        build_cfgs = build_cfgs[: max(2, int(len(build_cfgs) * scale))]
        if n6_direct is None:
            n6_direct = sc(3390400)

    ctx.rule = (
        "call: (signature<=4 params over pos-only/pos-or-kw/*args/kw-only/**kwargs x default, call<=4 actuals over positional/"
        "keyword/*tuple(len 0-2)/**total-TypedDict(0-2 keys)); exhaustive sub-spaces + seeded sample of the full space, plus "
        "decidable call shapes observed by a contract on check_argument_count in corpus runs; non-trivial = distinct pair "
        "decided by both sides and agreeing (accepts and rejects counted separately). "
        "mro: every class of every hierarchy (each class picks an ordered subset of earlier ones); non-trivial = class with "
        ">=2 bases or an MRO of length >=4, or rejected by both sides; distinct by hierarchy prefix. "
        "reach: (condition, target version, platform, layer); non-trivial = mypy decided always-true/always-false and eval agrees "
        "for every micro/releaselevel the target stands for; UNKNOWN is counted but never non-trivial. "
        "fold: (expression, layer mypy|mypyc); non-trivial = expression with >=1 operator that is folded to eval's value "
        "(accept) or not folded where eval raises (reject); distinct by text.")
    ctx.assumptions += [
        "CPython 3.12 (/venv/bin/python) is the reference for binding, MRO and arithmetic; the rules compared do not depend on the minor version",
        "run-time sys.version_info for target X.Y is (X, Y, micro, releaselevel, serial) for several micro/releaselevel values; "
        "a static ALWAYS_TRUE/FALSE must hold for all of them",
        "**TypedDict actuals are total (non-required keys are outside the iff); tuple actuals have fixed length",
        "only diagnostics of the call-arg family are read on call lines (code call-arg + the two uncoded messages of messages.py)",
        "an internal error inside the model counts as a disagreement when attributable to one input line (also a C20 event)",
        "expressions are pre-filtered by a size guard (results <= 12000 bits / 20000 chars) so that both sides terminate",
        "target versions below 3.10 cannot be configured through mypy's front end: they are checked by calling "
        "infer_condition_value directly with Options.python_version set",
        "trusted base: CPython, ast_serialize (native parser front end)"]
    sub = Sub(ctx)
    conds, combo_info = gen_reach(ctx, n_combo) if "reach" in only else ([], {})
    d1, rnd = gen_fold_exprs(ctx, n_fold_rand) if "fold" in only else ([], [])
    if scale < 1:
        d1 = d1[:: max(1, int(round(1 / scale)))]
        if conds:
            keep = set(conds[:: max(1, int(round(1 / scale)))]) | {a for c in combo_info for a in combo_info[c][1]}
            conds = [c for c in conds if c in keep or c in combo_info]
    pending_fold: list[dict[str, Any]] = []
    lost: list[dict[str, Any]] = []

    def tasks() -> Iterator[dict[str, Any]]:
        gens = []
        if "reach" in only:
            gens.append(gen_reach_tasks(ctx, conds, combo_info, build_cfgs, nplat=2 if quick else 5))
        if "fold" in only:
            gens.append(gen_fold_tasks(d1, rnd, mypyc_every))
        if "mro" in only:
            gens.append(gen_mro_tasks(ctx, n5_step, n6_build, n6_direct))
        if "call" in only:
            gens.append(gen_corpus_tasks(ctx, n_corpus))
            gens.append(gen_call_tasks(ctx, call_exh, n_call_rand))
        # interleave so that slow and fast task kinds share the pool
        its = [iter(g) for g in gens]
        while its:
            for it in list(its):
                try:
                    yield next(it)
                except StopIteration:
                    its.remove(it)

    with common.workdir("C12") as wd:
        env = common.base_env(VERIF_POOL_ROOT=wd)
        with Pool(env=env, recycle_after=150) as pool:
            for t, r in pool.imap(tasks(), timeout=900):
                if os.environ.get("VERIF_C12_DEBUG") and r.get("wall", 0) > float(os.environ["VERIF_C12_DEBUG"]):
                    print(f"slow task {t['fn']} {t.get('_tag') or t.get('_layer') or ''} wall={r.get('wall'):.1f}s", flush=True)
                dispatch(sub, t, r, combo_info, pending_fold, lost)
        if lost:
            ctx.extra["tasks_retried"] = len(lost)
            with Pool(n=max(1, min(4, len(lost))), env=env, recycle_after=20) as pool2:
                for t, r in pool2.imap(iter(lost), timeout=2400):
                    dispatch(sub, t, r, combo_info, pending_fold, None)
        with Pool(n=min(4, common.NCPU), env=env) as pool3:
            settle_fold(sub, pool3, pending_fold)
    settle_reach(sub)
    gone = ctx.extra.get("lost_tasks", {})

    ex = {"call": {f"<= {a} params x <= {b} actuals": True for a, b in call_exh} if scale >= 1 else {},
          "mro": {"<= 5 classes (full build)": n5_step == 1, "6 classes (direct calculate_mro)": n6_direct is None},
          "fold": {"depth 1 over the boundary leaves (size-guarded)": scale >= 1},
          "reach": {"all generated single comparisons x 16 versions x 5 platforms (direct)": scale >= 1 and not quick}}
    for s_ in SUBS:   # a sub-space with a task that was lost twice was not enumerated completely
        if gone.get(s_):
            ex[s_] = {k: False for k in ex[s_]}
    ctx.extra["exhaustive_subspaces"] = ex
    ctx.exhaustive = False
    summary = {}
    # (agreeing accepts, agreeing rejects) the unchanged tree yields; a sub-monitor below 40 % of either is inconclusive
    floors = ({"call": (13800, 61000), "mro": (100000, 75000), "reach": (115000, 116000), "fold": (40000, 30000)} if quick else
              {"call": (131000, 988000), "mro": (756000, 933000), "reach": (620000, 614000), "fold": (97000, 125000)})
    for s in SUBS:
        d = sub.n[s]
        summary[s] = {"evaluations": d["evaluations"], "both_accept": d["both_accept"], "both_reject": d["both_reject"],
                      "distinct_nontrivial": len(d["nontrivial"]), "violations": d["violations"]}
        if s not in only:
            continue
        fa, fr = (int(x * min(scale, 1.0) * 0.4) for x in floors[s])
        if d["both_accept"] < max(1, fa) or d["both_reject"] < max(1, fr):
            ctx.inconc(f"{s}: sub-monitor below its floor (accepting {d['both_accept']}/{fa}, rejecting {d['both_reject']}/{fr})")
            ctx.floor_nontrivial = 10 ** 9
    ctx.extra["sub_monitors"] = summary
    # one written-out witness per mechanism key before repeats of the same key
    head: list[dict[str, Any]] = []
    tail: list[dict[str, Any]] = []
    seen_keys: set[str] = set()
    for v in ctx.violations:
        (tail if v["key"] in seen_keys else head).append(v)
        seen_keys.add(v["key"])
    ctx.violations = head + tail
    ctx.max_reported = max(ctx.max_reported, min(len(head), 60))
    if only != set(SUBS):
        ctx.assumptions.append(f"PARTIAL RUN: only sub-monitors {sorted(only)} (VERIF_C12_ONLY)")
    tot_floor = {"quick": (358000, 1022000), "thorough": (2630000, 6532000)}[ctx.tier]
    if ctx.floor_nontrivial < 10 ** 9:
        ctx.floor_nontrivial = int(tot_floor[0] * min(scale, 1.0) * 0.4) if only == set(SUBS) else 1
        ctx.floor_evaluations = int(tot_floor[1] * min(scale, 1.0) * 0.4) if only == set(SUBS) else 1


def dispatch(sub: Sub, t: dict[str, Any], r: dict[str, Any], combo_info: dict[str, Any], pending_fold: list[dict[str, Any]],
             lost: list[dict[str, Any]] | None = None) -> None:
    ctx = sub.ctx
    kind = t["_kind"]
    if not r.get("ok"):
        why = "timeout" if r.get("timeout") else "died" if r.get("died") else "exc"
        if why == "exc":
            raise RuntimeError(f"C12 task {t['fn']} raised in the worker: {r.get('exc')}\n{r.get('tb')}")
        if lost is not None:
            lost.append(t)      # watchdog / dead worker: never a verdict; tried once more at the end
            return
        ctx.inconc(f"{kind}:runner-{why} (after one retry)")
        ctx.extra.setdefault("lost_tasks", {}).setdefault("corpus" if kind == "corpus" else kind, 0)
        ctx.extra["lost_tasks"]["corpus" if kind == "corpus" else kind] += 1
        return
    res = r["res"]
    if kind == "call":
        handle_call(sub, t, res)
    elif kind == "corpus":
        handle_corpus(sub, t, res)
    elif kind == "mro":
        handle_mro(sub, t, res)
    elif kind == "reach":
        handle_reach(sub, t, res, combo_info)
    elif kind == "fold":
        handle_fold(sub, t, res, pending_fold)


def replay(ctx: common.Ctx, rep: dict[str, Any]) -> int:
    """Re-execute the single case of a saved witness against the current tree; 1 if it still disagrees."""
    w = rep["witness"]
    t = dict(w["replay_task"])
    if t["_kind"] == "call" and "args" not in t:
        cases = [(tuple(tuple(p) for p in s), tuple(tuple(tuple(x) if isinstance(x, list) else x for x in a) for a in c))
                 for s, c in t["_cases"]]
        text, linenos = G.call_module(cases)
        t["args"] = {"text": text, "linenos": linenos, "flags": []}
        t["_cases"] = cases
    sub = Sub(ctx)
    pending: list[dict[str, Any]] = []
    info: dict[str, Any] = {}
    with common.workdir("C12r") as wd:
        with Pool(n=1, env=common.base_env(VERIF_POOL_ROOT=wd)) as pool:
            for tt, r in pool.imap(iter([t]), timeout=900):
                dispatch(sub, tt, r, info, pending)
            settle_fold(sub, pool, pending)
    settle_reach(sub)
    found = ctx.violations + [{"key": k, "what": v["what"]} for k, v in ctx.known_hits.items()]
    for v in found:
        print(f"reproduced: key={v['key']} :: {v['what']}"[:500])
    same = any(v["key"] == rep["key"] for v in found)
    print(f"replay of {rep['key']}: {'REPRODUCED' if same else 'reproduced under another key' if found else 'not reproduced'}")
    return 1 if found else 0
