"""C15 - compiled numeric primitives compute exactly what Python computes.

Differential oracle: a generated harness of one-operation functions (arithmetic, comparison, bitwise, shift,
division, modulo, power, unary, conversions; int/bool/float/i64/i32/i16/u8 and the mixed pairs the real mypy
accepts; literal-operand, augmented-assignment, branch and constant-folded variants) is compiled with the
repository's mypyc + lib-rt at opt 0, opt 3 and under ASan+UBSan, and every compiled function is called on the
boundary cross product and on random operands; the reference is CPython evaluating the same source function.
"""

from __future__ import annotations

import ast
import glob
import json
import os
import time
from typing import Any, Iterator

from vlib import c15_build, c15_gen as g, common
from vlib.pool import Pool
from vlib.tasks import c15_tasks

CHUNK = 24


def _opfam(op: str) -> str:
    if op in ("+", "-", "*"):
        return "arith"
    if op in ("//", "%", "divmod", "/"):
        return "div"
    if op in ("<<", ">>"):
        return "shift"
    if op in ("&", "|", "^"):
        return "bitwise"
    if op in g.CMP:
        return "cmp"
    return "pow" if op == "**" else op


def _select(cands: list[dict[str, Any]], scale: float) -> list[dict[str, Any]]:
    """VERIF_SCALE<1: a deterministic subset of the candidates (smoke runs); every kind/op/type stays present."""
    if scale >= 0.999:
        return cands
    step = max(1, round(1 / max(scale, 0.05)))
    out: list[dict[str, Any]] = []
    seen: dict[tuple[str, str], int] = {}
    for c in cands:
        k = (c["kind"], c["group"])
        seen[k] = seen.get(k, 0) + 1
        if seen[k] % step == 1 or step == 1:
            out.append(c)
    return out


def _build_all(ctx: common.Ctx, pool: Pool, wd: str, mods: list[tuple[list[dict[str, Any]], str]], configs: list[str],
               ) -> dict[tuple[str, int], dict[str, Any]]:
    tasks = []
    for cfg in sorted(configs, key=lambda c: c != "san"):  # slowest first
        for i, (_, src) in enumerate(mods):
            tasks.append({"fn": "vlib.tasks.c15_tasks:compile_one",
                          "args": {"modname": f"c15_{cfg}_m{i}", "source": src, "outdir": os.path.join(wd, cfg, f"m{i}"),
                                   "config": cfg}, "_cfg": cfg, "_i": i})
    built: dict[tuple[str, int], dict[str, Any]] = {}
    rejected: list[dict[str, Any]] = ctx.extra.setdefault("c_compiler_rejections", [])
    for t, r in pool.imap(tasks, timeout=1800):
        cfg, i = t["_cfg"], t["_i"]
        if not r.get("ok"):
            ctx.inconc(f"compile-task-failed:{cfg}:" + ("timeout" if r.get("timeout") else "error"))
            ctx.extra.setdefault("compile_failures", []).append({"config": cfg, "module": i, "detail": str(r)[:600]})
            continue
        res = r["res"]
        ctx.cell(f"compile:{cfg}:{'ok' if res['ok'] else 'failed'}")
        for name, msg in res.get("c_dropped", {}).items():
            rejected.append({"config": cfg, "function": name, "message": msg[:200]})
            ctx.inconc("function-rejected-by-C-compiler")
        for name, msg in res.get("dropped", {}).items():
            ctx.inconc("function-rejected-by-mypyc")
            ctx.extra.setdefault("mypyc_rejections", {}).setdefault(msg[:100], []).append(name)
        if not res["ok"]:
            ctx.inconc(f"module-not-compiled:{cfg}")
            ctx.extra.setdefault("compile_failures", []).append({"config": cfg, "module": i, "log": res["log"][-1500:]})
            continue
        built[(cfg, i)] = res
    return built


def _drive_tasks(mods: list[tuple[list[dict[str, Any]], str]], built: dict[tuple[str, int], dict[str, Any]],
                 configs: list[str], wd: str, **kw: Any) -> Iterator[dict[str, Any]]:
    n = 0
    for i, (specs, _) in enumerate(mods):
        have = [c for c in configs if (c, i) in built]
        if not have:
            continue
        # every build of a module is compared against the same reference source: the functions all builds kept
        src = min((built[(c, i)]["source"] for c in have), key=len)
        keep = [s for s in specs if all(f"def {s['name']}(" in built[(c, i)]["source"] for c in have)]
        builds = {c: [built[(c, i)]["modname"], built[(c, i)]["so"]] for c in have}
        for j in range(0, len(keep), CHUNK):
            n += 1
            yield {"fn": "vlib.tasks.c15_tasks:drive",
                   "args": {"specs": keep[j:j + CHUNK], "source": src, "builds": builds,
                            "marker": os.path.join(wd, f"marker-{'-'.join(have)}-{n}"), **kw},
                   "_mod": i, "_configs": have}


def _what(key: str) -> str:
    return {"wrong-value": "compiled result differs from CPython's for the same operands",
            "out-of-range-int-accepted": "an int outside the fixed-width range was converted without an exception",
            }.get(key.split(":")[0], "compiled outcome differs from CPython's for the same operands (" + key.split(":")[0] + ")")


def _account(ctx: common.Ctx, byname: dict[str, dict[str, Any]], t: dict[str, Any], res: dict[str, Any], repo: str) -> None:
    src_of = {s["name"]: g.function_source(s) for s in t["args"]["specs"]}
    for name, st in res["funcs"].items():
        spec = byname[name]
        if st.get("missing"):
            ctx.inconc("function-missing-in-build")
            continue
        ctx.count(st["evals"])
        desc = g.describe(spec) + (":" + spec["variant"][:3] if spec["kind"] in ("lit", "branch", "inplace") else "")
        fam = f"{spec['kind']}:{_opfam(spec['op'])}:{','.join(g._tclass(x) for x in spec['pt']) or 'literals'}"
        for ck, n in st["cells"].items():
            rc, oc = ck.split("|")
            if oc == "free":
                ctx.cell("fixed-width:result-does-not-fit(no demand)", n)
                continue
            ctx.nontriv(desc, rc, oc)
            ctx.cell(fam, n)
            ctx.cell("outcome:" + oc, n)
            if spec["pt"] == ["int", "int"]:
                ctx.cell("int,int representation pair:" + rc, n)
        if st.get("skipped"):
            ctx.cell("skipped:resource-blowup-or-complex", st["skipped"])
    for cfg in t["_configs"]:
        ctx.cell(f"evaluations:{cfg}", sum(st.get("evals", 0) for st in res["funcs"].values()) // max(1, len(t["_configs"])))
    for m in res["mismatches"]:
        spec = byname[m["function"]]
        w = dict(m)
        key = w.pop("key")
        w.update({"source": g.HEADER + src_of.get(m["function"], g.function_source(spec)), "spec": spec, "repo": repo,
                  "how": "compile `source` with mypyc (opt level per `config`; san = clang ASan+UBSan -O1), call the "
                         "function with `args_repr`, compare with CPython running the same source"})
        ctx.violation(key, _what(key), w)
    for s in res["san"]:
        spec = byname[s["function"]]
        for kind in s.get("kinds") or ["unclassified-report"]:
            w = dict(s)
            w.update({"source": g.HEADER + src_of.get(s["function"], g.function_source(spec)), "spec": spec, "repo": repo})
            ctx.violation(f"sanitizer:{kind}:{s['mechanism']}", "sanitizer report while executing a compiled numeric operation", w)
    pool = ctx.extra.setdefault("_sample_pool", {})
    for s in res.get("samples", []):
        spec = byname[s["function"]]
        k = f"{spec['kind']}:{_opfam(spec['op'])}:{','.join(spec['pt'])}"
        if k not in pool and len(pool) < 400:
            s = dict(s)
            s["source"] = src_of.get(s["function"], "")
            pool[k] = s


def _shift_cells(ctx: common.Ctx, byname: dict[str, dict[str, Any]], results: list[tuple[dict[str, Any], dict[str, Any]]]) -> None:
    """Shift counts below / at-or-above the bit width are separate coverage cells (recomputed from the
    deterministic boundary sets of the functions that were actually driven)."""
    done = set()
    for t, res in results:
        for name, st in res["funcs"].items():
            spec = byname[name]
            if spec["op"] not in ("<<", ">>") or st.get("missing") or name in done or spec["kind"] == "const":
                continue
            done.add(name)
            for args in g.iter_boundary(spec):
                pt, vals, _ = g.operands(spec, args)
                if len(vals) != 2 or not isinstance(vals[1], int) or isinstance(vals[0], float):
                    continue
                fx = next((x for x in pt if x in g.FIXED), None)
                width = g.FIXED[fx][2] if fx else 64
                c = vals[1]
                ctx.cell(f"shift:{'fixed-width' if fx else 'int'}:" + ("count<0" if c < 0 else "count<width" if c < width else "count>=width"))


def run(ctx: common.Ctx) -> None:
    quick = ctx.tier == "quick"
    scale = float(os.environ.get("VERIF_SCALE", "1"))
    repo = common.REPO
    n_random = max(10, int((300 if quick else 150000) * min(scale, 1.0) ** 0.5 * max(scale, 1.0)))
    n_random_san = max(5, int((40 if quick else 6000) * min(scale, 1.0) ** 0.5 * max(scale, 1.0)))
    thin_san = 4 if quick else 1
    n_modules = 9 if scale >= 0.5 else 4
    ctx.rule = ("one-operation functions (op x operand types mypy accepts x {plain, literal operand, augmented assignment, "
                "branch on comparison, constant-folded}); operands = full cross product of a boundary set (0, +-1, +-2, "
                "+-2^k and neighbours for k in {7,8,15,16,30,31,32,61,62,63,64,127,128}, +-10^30, type limits and limits+-1, "
                "float specials) plus seeded random operands; non-trivial case = distinct (function shape, representation "
                "class of every operand {short,long | in,edge,below,above | zero,fin,huge,inf,nan | bool}, demanded outcome "
                "{value, exception type}) cell with at least one compiled-vs-interpreter comparison; cells where a "
                "fixed-width result does not fit (no demand by the property) are not counted")
    ctx.assumptions += [
        "reference = CPython 3.12 evaluating the same source function (mypy_extensions i64/i32/i16/u8 behave as int there)",
        "declared return type of every harness function = static type revealed by the repository's mypy for the expression; "
        "expressions typed Any (int ** int, float ** float) are declared `object`; complex results are skipped",
        "fixed-width: compared only when the exact result fits; u8 + - * << unary- ~ must wrap mod 256; an int argument or "
        "mixed-in int operand outside the range must raise (OverflowError/ValueError/TypeError accepted); "
        "native-to-native narrowing (i32(x: i64)) and float->fixed-width out of range are documented truncations: no demand",
        "bool-ness of int-typed results is not preserved by mypyc (documented): compared by value",
        "left shifts by more than 4096 bits and powers with |exponent| > 4096 are not generated (memory blow-up on both sides)",
        "UBSan checks shift-base and signed-integer-overflow are off (tagged-int macros rely on them by design)",
        "trusted base: CPython, gcc/clang, setuptools; a function the C compiler rejects is inconclusive, not a violation",
    ]
    cands = _select(g.candidates(), scale)
    phase: dict[str, float] = {}
    ctx.extra["phase_wall_s"] = phase
    t0 = time.time()

    def mark(name: str) -> None:
        nonlocal t0
        phase[name] = round(time.time() - t0, 1)
        t0 = time.time()

    with common.workdir("C15") as wd:
        probe_src = g.probe_source(cands)
        pr = c15_build.probe_types(probe_src, os.path.join(wd, "probe"))
        if pr.get("timeout") or not pr["types"]:
            ctx.inconc("type-probe-failed")
            ctx.extra["probe_tail"] = pr.get("raw_tail", "")[-1500:]
            ctx.floor_nontrivial = 1
            return
        mark("type-probe")
        specs, why = g.apply_probe(cands, probe_src, pr["types"], pr["errors"])
        for k, n in why.items():
            ctx.cell("not-generated:" + k, n)
        ctx.extra["functions"] = {"candidates": len(cands), "accepted_by_mypy": len(specs)}
        frac = len(cands) / max(1, len(g.candidates()))
        ctx.floor_nontrivial = int(4500 * frac)
        ctx.floor_evaluations = int((4_000_000 if quick else 200_000_000) * frac * min(1.0, scale) ** 0.5)
        byname = {s["name"]: s for s in specs}
        mods = g.module_sources(specs, n_modules)
        san_env = c15_build.san_run_env(os.path.join(wd, "sanlog", "san"))
        configs = ["o0", "o3"] + (["san"] if san_env else [])
        if not san_env:
            ctx.inconc("sanitizer-runtime-unavailable")
        os.makedirs(os.path.join(wd, "sanlog"), exist_ok=True)
        env = common.base_env(VERIF_POOL_ROOT=wd)
        results: list[tuple[dict[str, Any], dict[str, Any]]] = []
        died: list[dict[str, Any]] = []

        def handle(t: dict[str, Any], r: dict[str, Any]) -> None:
            if r.get("timeout"):
                ctx.inconc("drive-timeout")
                return
            if r.get("died"):
                died.append({"task": t, "rc": r.get("returncode")})
                return
            if not r.get("ok"):
                ctx.inconc("harness-exception")
                ctx.extra.setdefault("harness_exceptions", []).append(str(r.get("exc"))[:300] + " | " + str(r.get("tb"))[-600:])
                return
            results.append((t, r["res"]))
            _account(ctx, byname, t, r["res"], repo)

        with Pool(env=env) as pool:
            built = _build_all(ctx, pool, wd, mods, configs)
            ctx.extra["compiled_modules"] = {c: sum(1 for (cc, _i) in built if cc == c) for c in configs}
            mark("compile")
            for t, r in pool.imap(_drive_tasks(mods, built, ["o0", "o3"], wd, boundary=True, n_random=n_random,
                                               tag=f"{ctx.tier}"), timeout=3600):
                handle(t, r)
        mark("drive-o0-o3")
        if san_env:
            with Pool(env=common.base_env(VERIF_POOL_ROOT=wd, **san_env)) as pool:
                for t, r in pool.imap(_drive_tasks(mods, built, ["san"], wd, boundary=True, n_random=n_random_san,
                                                   tag=f"{ctx.tier}", thin=thin_san,
                                                   san_log=os.path.join(wd, "sanlog", "san")), timeout=3600):
                    handle(t, r)
        mark("drive-san")
        _shift_cells(ctx, byname, results)
        _deaths(ctx, byname, died, wd, env, san_env, repo)
        _tidy(ctx)
        # table size hit vs possible: representation-class tuples reachable from the boundary sets
        possible = 0
        for s in specs:
            n = 1
            for x in s["pt"]:
                n *= len({g.rep_class(x, v) for v in g.boundary_set(x)})
            possible += n
        hit = len({fp for fp in ctx.nontrivial})
        ctx.extra["cell_table"] = {"distinct_cells_hit(incl. outcome class)": hit,
                                   "representation_tuples_possible(all functions)": possible}
        ctx.extra["workload"] = {"random_per_function": n_random, "random_per_function_san": n_random_san,
                                 "san_boundary_thinning": thin_san, "modules": len(mods), "configs": configs}


def _tidy(ctx: common.Ctx, per_key: int = 3) -> None:
    """Keep a few witnesses per mechanism key (the first of every key first, so that each key is written out);
    compact the list of functions the C compiler rejected."""
    counts: dict[str, int] = {}
    first: list[dict[str, Any]] = []
    rest: list[dict[str, Any]] = []
    for v in ctx.violations:
        n = counts.get(v["key"], 0)
        counts[v["key"]] = n + 1
        if n == 0:
            first.append(v)
        elif n < per_key:
            rest.append(v)
    ctx.extra["violation_observations_per_key"] = dict(sorted(counts.items()))
    # written-out samples: one per distinct (kind, op family, operand types), spread over the kinds
    pool = ctx.extra.pop("_sample_pool", {})
    by_kind: dict[str, list[Any]] = {}
    for k in sorted(pool):
        by_kind.setdefault(k.split(":")[0], []).append(pool[k])
    while len(ctx.samples) < ctx.max_samples and any(by_kind.values()):
        for kind in sorted(by_kind):
            if by_kind[kind] and len(ctx.samples) < ctx.max_samples:
                lst = by_kind[kind]
                ctx.sample(lst.pop(len(lst) // 2))
    ctx.violations[:] = sorted(first, key=lambda v: v["key"]) + rest
    rej: dict[str, dict[str, Any]] = {}
    for r in ctx.extra.get("c_compiler_rejections", []):
        e = rej.setdefault(r["function"], {"function": r["function"], "configs": [], "message": r["message"]})
        e["configs"].append(r["config"])
    ctx.extra["c_compiler_rejections"] = sorted(rej.values(), key=lambda e: e["function"])


def _deaths(ctx: common.Ctx, byname: dict[str, dict[str, Any]], died: list[dict[str, Any]], wd: str, env: dict[str, str],
            san_env: dict[str, str] | None, repo: str) -> None:
    """A worker that died while calling compiled code: find the function (marker), then the operands (fresh process)."""
    for d in died:
        t = d["task"]
        marker = t["args"]["marker"]
        try:
            with open(marker) as f:
                fname = f.read().strip()
        except OSError:
            fname = ""
        if fname not in byname:
            ctx.inconc("worker-died-outside-compiled-call")
            continue
        spec = byname[fname]
        is_san = t["_configs"] == ["san"]
        penv = common.base_env(VERIF_POOL_ROOT=wd, **(san_env or {})) if is_san else env
        witness: dict[str, Any] = {"function": fname, "source": g.HEADER + g.function_source(spec), "spec": spec, "repo": repo,
                                   "configs": t["_configs"], "returncode": d["rc"]}
        mech = f"{spec['op']}:{','.join(g._tclass(x) for x in spec['pt'])}"
        for cfg in t["_configs"]:
            pm = marker + ".pin"
            task = {"fn": "vlib.tasks.c15_tasks:pinpoint",
                    "args": {"spec": spec, "source": t["args"]["source"], "build": t["args"]["builds"][cfg], "marker": pm,
                             "n_random": t["args"]["n_random"], "tag": t["args"]["tag"]}}
            with Pool(n=1, env=penv, recycle_after=1) as solo:
                for _, r in solo.imap([task], timeout=900):
                    if r.get("died"):
                        try:
                            with open(pm) as f:
                                reprs = ast.literal_eval(f.read())
                            args = c15_tasks._parse_args(reprs)
                            witness.update({"config": cfg, "args_repr": reprs})
                            mech = g.mechanism(spec, args)
                        except (OSError, ValueError, SyntaxError):
                            pass
        logs = ""
        if is_san:
            for p in sorted(glob.glob(os.path.join(wd, "sanlog", "san.*")), key=os.path.getmtime)[-3:]:
                try:
                    with open(p, errors="replace") as f:
                        txt = f.read()
                    if "AddressSanitizer" in txt:
                        logs = txt[-4000:]
                except OSError:
                    pass
        witness["sanitizer_log"] = logs
        kinds = c15_tasks.san_kinds(logs) if logs else []
        what = "sanitizer:" + kinds[0] if kinds else f"process-died:rc={d['rc']}"
        ctx.violation(f"{what}:{mech}", "the process died while executing a compiled numeric operation", witness)


def replay(ctx: common.Ctx, rep: dict[str, Any]) -> int:
    """Rebuild the single function of a witness from the current tree and re-execute its operands."""
    w = rep["witness"]
    spec = w["spec"]
    cfg = w.get("config", "o3")
    with common.workdir("C15-replay") as wd:
        san_env = c15_build.san_run_env(os.path.join(wd, "san")) if cfg == "san" else None
        r = c15_tasks.compile_one("c15_replay", w["source"], os.path.join(wd, "b"), cfg)
        if not r["ok"]:
            print("replay: the function does not compile:", r["log"][-800:])
            return 2
        task = {"fn": "vlib.tasks.c15_tasks:drive",
                "args": {"specs": [spec], "source": r["source"], "builds": {cfg: ["c15_replay", r["so"]]}, "boundary": False,
                         "n_random": 0, "tag": "replay", "explicit": [w["args_repr"]],
                         "san_log": os.path.join(wd, "san") if san_env else None}}
        with Pool(n=1, env=common.base_env(**(san_env or {}))) as pool:
            for _, res in pool.imap([task], timeout=600):
                if not res.get("ok"):
                    print("replay: call did not complete:", {k: res.get(k) for k in ("died", "timeout", "returncode", "exc")})
                    return 1 if res.get("died") else 2
                out = res["res"]
                print(json.dumps({"mismatches": out["mismatches"], "sanitizer": out["san"], "funcs": out["funcs"]}, indent=1)[:3000])
                return 1 if (out["mismatches"] or out["san"]) else 0
    return 2
