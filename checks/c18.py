"""C18 - files and module names map to each other consistently.

Every observation comes from real in-process `mypy.main.main` runs over a generated directory tree
(vlib/tasks/c18_layout.py): a recording wrapper on the real `mypy.build.load_graph` yields the sources
mypy derived and the live graph; stdout/stderr/exit status yield the outcome class and diagnostics.

Oracles (each evaluation counted):
  G  graph invariants on every successful load_graph return: no file owned by two module ids; every
     command-line source file is the file the graph holds for its assigned module (or that file's sibling stub).
  A  "assigned" import mode: every file imports every other file under the module name mypy itself
     assigned (taken from a first real run). If mypy does not stop with a documented error the diagnostics must
     be exactly the two deliberate errors of every user file in the graph: an assigned name that does not
     resolve, or binds to another file, shows up as an extra diagnostic; an unchecked source as a missing one.
  O  `mypy DIR` versus the files DIR expanded to (from the run's own source list), reversed and shuffled:
     same outcome class, same (file, module) pairs, same files in the graph, same diagnostics.
  D  `mypy DIR` versus every python file below DIR listed individually, wherever that listing is itself accepted
     (no duplicate-module stop): same outcome, same graph, same diagnostics.
  P  `mypy -p PKG` versus `mypy DIR-of-PKG` wherever the documented crawl rule makes the package root a
     search base (see comparable_p): same outcome, same files/modules, same graph, same diagnostics.
  M  `mypy -m MOD` versus `mypy FILE` for a file whose crawled base is a search base: MOD must resolve to
     FILE or its sibling stub.
"""

from __future__ import annotations

import os
import re
from typing import Any, Iterator

from vlib import c18_gen, common
from vlib.pool import Pool

STOPS = ("duplicate-module", "found-twice", "invalid-package-name")
NS = ("off", "on", "epb")
SKIP_NAMES = ("__pycache__", "site-packages", "node_modules")


# --- case generation ---------------------------------------------------------------------------

def config_for(layout: c18_gen.Layout, ns: str, k: int) -> dict[str, Any]:
    r = common.rng_for("C18", "cfg", layout, ns, k)
    return {
        "ns": ns,
        "cwd_kind": r.choice(("parent", "root", "root", "inside")),
        "mp_kind": r.choice(("none", "none", "none", "root", "sub", "rootrel", "shadow", "shadow")),
        "mp_via": r.choice(("env", "config")),
        "import_mode": r.choice(("assigned", "candidates")),
        "inside_target": r.choice((".", "..")),
    }


def task_for(layout: c18_gen.Layout, cfg: dict[str, Any], space: str, cli: bool = False) -> dict[str, Any]:
    return {"fn": "vlib.tasks.c18_layout:run_case",
            "args": {"layout": list(layout), **cfg, "order_seed": common.fingerprint(common.seed(), layout, cfg["ns"]),
                     "cli": cli},
            "_layout": layout, "_space": space}


def gen_cases(ctx: common.Ctx, n_core: int | None, n_ext: int, n_cli: int, core_max: int) -> Iterator[dict[str, Any]]:
    core = c18_gen.enumerate_core(core_max)
    ctx.extra["core_space"] = {"layouts_canonical": len(core), "max_files": core_max,
                               "enumerated_completely": n_core is None}
    rng = common.rng_for("C18", "core-order")
    if n_core is None:
        chosen = list(core)
        rng.shuffle(chosen)
    else:
        chosen = list(c18_gen.iter_core_sample(core, rng, n_core))
    n = 0
    cli_every = max(1, (len(chosen) * (3 if n_core is None else 1) + n_ext) // max(1, n_cli)) if n_cli else 0
    for i, lay in enumerate(chosen):
        nss = NS if n_core is None else (NS[i % 3],)
        for ns in nss:
            n += 1
            yield task_for(lay, config_for(lay, ns, 0), "core", cli=bool(cli_every) and n % cli_every == 0)
    seen: set[Any] = set()
    k = 0
    made = 0
    while made < n_ext and k < n_ext * 20:
        k += 1
        r = common.rng_for("C18", "ext", k)
        lay = c18_gen.sample_extended(r)
        ns = NS[k % 3]
        key = (c18_gen.canon(lay), ns)
        if len(lay) < 2 or key in seen:
            continue
        seen.add(key)
        made += 1
        n += 1
        yield task_for(lay, config_for(lay, ns, k), "extended", cli=bool(cli_every) and n % cli_every == 0)


# --- helpers over one run ------------------------------------------------------------------------

DIAG = re.compile(r"^(?P<file>[^:]+?)(?::(?P<line>\d+))?: (?P<sev>error|note|warning): (?P<msg>.*?)(?:  \[(?P<code>[a-z0-9-]+)\])?$")


def parsed(diags: list[str]) -> list[dict[str, Any]]:
    out = []
    for ln in diags:
        m = DIAG.match(ln)
        if m:
            d = m.groupdict()
            d["line"] = int(d["line"]) if d["line"] else None
            out.append(d)
        else:
            out.append({"file": None, "line": None, "sev": "other", "msg": ln, "code": None})
    return out


def file_sources(lg: dict[str, Any]) -> dict[str, str]:
    """path -> module for the non-directory sources of one load_graph call."""
    return {s["path"]: s["module"] for s in lg["sources"] if s["path"] and not s["isdir"]}


def graph_map(lg: dict[str, Any], dirs: bool = True) -> dict[str, str]:
    return {mid: v["path"] for mid, v in lg["graph"].items() if dirs or not v["isdir"]}


def sibling_stub(p: str) -> str:
    return p[:-3] + ".pyi" if p.endswith(".py") else p


def cfg_tag(res: dict[str, Any]) -> str:
    return f"ns={res['ns']}"


def shape_of_file(path: str, layout: list[str]) -> str:
    """Structural trait of a file inside its layout (used in mechanism keys; never a name or index)."""
    rel = path[len(c18_gen.ROOT) + 1:] if path.startswith(c18_gen.ROOT + "/") else path
    d, fn = os.path.split(rel)
    stem, ext = os.path.splitext(fn)
    traits = []
    traits.append("init" if stem == "__init__" else "module")
    traits.append(ext.lstrip(".") or "dir")
    other = (d + "/" if d else "") + stem + (".pyi" if ext == ".py" else ".py")
    if other in layout:
        traits.append("has-sibling-" + ("stub" if ext == ".py" else "source"))
    as_dir = (d + "/" if d else "") + stem
    if stem != "__init__" and any(x.startswith(as_dir + "/") for x in layout):
        traits.append("same-name-dir-" + ("pkg" if c18_gen.has_init(layout, as_dir) else "noinit"))
    parts = d.split("/") if d else []
    if any(p.endswith("-stubs") for p in parts):
        traits.append("under-stubs-dir")
    elif any(not p.isidentifier() for p in parts):
        traits.append("under-invalid-name-dir")
    if parts and not c18_gen.has_init(layout, d):
        traits.append("dir-no-init")
    return "+".join(traits)


def source_diff_mechanism(only_a: list[str], only_b: list[str], layout: list[str], any_dir: bool = False) -> str:
    """Why two styles picked different files: a structural trait of the files involved."""
    rels = [p[len(c18_gen.ROOT) + 1:] for p in only_a + only_b if p.startswith(c18_gen.ROOT + "/")]
    if any_dir:
        for rel in rels:
            d, fn = os.path.split(rel)
            stem = os.path.splitext(fn)[0]
            as_dir = (d + "/" if d else "") + stem
            if stem != "__init__" and any(x.startswith(as_dir + "/") for x in layout):
                return "module-skipped-beside-same-name-dir-" + ("with-init" if c18_gen.has_init(layout, as_dir) else "without-init")
    for rel in rels:
        # a module file beside a directory of the same name that has no __init__ (namespace directory)
        d, fn = os.path.split(rel)
        stem = os.path.splitext(fn)[0]
        as_dir = (d + "/" if d else "") + stem
        if stem != "__init__" and any(x.startswith(as_dir + "/") for x in layout) and not c18_gen.has_init(layout, as_dir):
            return "module-beside-same-name-dir-without-init"
        dd = d
        while dd:
            if not c18_gen.has_init(layout, dd) and any(x in (dd + ".py", dd + ".pyi") for x in layout):
                return "module-beside-same-name-dir-without-init"
            dd = os.path.dirname(dd)
    return shape_of_file((only_a or only_b)[0], layout)


def diff_key(prefix: str, a: dict[str, Any], b: dict[str, Any], res: dict[str, Any],
             compare_sources: bool = True) -> tuple[str, str] | None:
    """Compare two runs (a = reference style, b = other style). Returns (key, text) or None if equivalent."""
    layout = res["layout"]
    tag = cfg_tag(res)
    if a["outcome"] != b["outcome"]:
        return f"{prefix}:outcome:{a['outcome']}-vs-{b['outcome']}:{tag}", f"outcome {a['outcome']} vs {b['outcome']}"
    if a["outcome"] != "ok":
        return None
    la, lb = a["lg"], b["lg"]
    sa, sb = file_sources(la), file_sources(lb)
    if not compare_sources:
        sa = sb = {}
    if set(sa) != set(sb):
        only_a = sorted(set(sa) - set(sb))
        only_b = sorted(set(sb) - set(sa))
        side = "second-misses" if only_a and not only_b else "second-adds" if only_b and not only_a else "both"
        shape = source_diff_mechanism(only_a, only_b, layout)
        if shape == "module-beside-same-name-dir-without-init":
            return f"{prefix}:source-files-differ:{shape}", f"source files differ: only first {only_a}, only second {only_b}"
        return f"{prefix}:source-files-differ:{side}:{shape}:{tag}", f"source files differ: only first {only_a}, only second {only_b}"
    named = sorted(p for p in sa if sa[p] != sb[p])
    if named:
        p = named[0]
        rel = "second-longer" if sb[p].endswith("." + sa[p]) else "second-shorter" if sa[p].endswith("." + sb[p]) else "unrelated"
        return (f"{prefix}:module-name-differs:{rel}:{shape_of_file(p, layout)}:{tag}",
                f"file {p} is module {sa[p]!r} in one style and {sb[p]!r} in the other")
    # namespace-package directories carry no diagnostics: the graphs are compared on files
    ga, gb = graph_map(la, dirs=False), graph_map(lb, dirs=False)
    if ga != gb:
        ids = sorted(set(ga) ^ set(gb)) or sorted(m for m in ga if ga[m] != gb.get(m))
        m0 = ids[0]
        pa, pb = ga.get(m0), gb.get(m0)
        fa, fb = sorted(set(ga.values()) - set(gb.values())), sorted(set(gb.values()) - set(ga.values()))
        mech = source_diff_mechanism(fa, fb, layout, any_dir=True) if prefix == "dir-vs-allfiles" and not fa and fb else ""
        if mech.startswith("module-skipped-beside-same-name-dir"):
            return (f"{prefix}:files-checked-differ:{mech}",
                    f"the directory run never checks {fb}, listing every file does")
        if (fa or fb) and source_diff_mechanism(fa, fb, layout) == "module-beside-same-name-dir-without-init":
            return (f"{prefix}:files-checked-differ:module-beside-same-name-dir-without-init",
                    f"files in the graph differ: only first {fa}, only second {fb}")
        if pa and pb:
            kind = "same-id-other-file:" + shape_of_file(pa, layout) + "->" + shape_of_file(pb, layout)
        else:
            kind = ("only-first:" if pa else "only-second:") + shape_of_file(pa or pb or "", layout)
        return f"{prefix}:graph-differs:{kind}:{tag}", f"graph differs at module {m0!r}: {pa} vs {pb}"
    if sorted(a["diags"]) != sorted(b["diags"]):
        oa = [x for x in a["diags"] if x not in b["diags"]]
        ob = [x for x in b["diags"] if x not in a["diags"]]
        codes = sorted({(d["code"] or d["sev"]) for d in parsed(oa + ob)})[:3]
        return f"{prefix}:diagnostics-differ:{','.join(codes)}:{tag}", f"diagnostics differ: only first {oa[:4]}, only second {ob[:4]}"
    return None


def top_name_in_other_base(res: dict[str, Any], name: str, base: str) -> bool:
    """Is the top-level name also present (module file or directory) directly below another search base?"""
    layout: list[str] = res["layout"]
    root = c18_gen.ROOT
    bases = {os.path.normpath(res["cwd"])}
    if res.get("mypypath"):
        bases.add(os.path.normpath(res["mypypath"]))
    for b in bases:
        other = b != os.path.normpath(base)
        if b == ".":
            if name == root and other:
                return True
            continue
        brel = "" if b == root else b[len(root) + 1:]
        pre = brel + "/" if brel else ""
        if other and any(p.startswith(pre + name + "/") or p in (pre + name + ".py", pre + name + ".pyi") for p in layout):
            return True
        # a PEP 561 stub-only package `<name>-stubs` in a search base answers for `<name>` before the package itself
        if any(p.startswith(pre + name + "-stubs/") for p in layout):
            return True
    return False


def comparable_p(res: dict[str, Any], pk: dict[str, Any]) -> str | None:
    """None if `-p PKG` and `mypy DIR-of-PKG` must agree by the documented mapping rules
    (running_mypy.rst, "Mapping file paths to modules"); otherwise the reason they need not."""
    layout: list[str] = res["layout"]
    ns = res["ns"]
    cwd = res["cwd"]
    base = pk["base"]  # relative to the case dir ('.' = the case dir itself)
    d_abs = os.path.normpath(os.path.join(base, pk["name"]))  # relative to case dir, e.g. 'r' or 'r/a'
    root = c18_gen.ROOT
    if d_abs == root:
        sub_rel = ""
    elif d_abs.startswith(root + "/"):
        sub_rel = d_abs[len(root) + 1:]
    else:
        return "outside-tree"
    files = [p for p in layout if not sub_rel or p.startswith(sub_rel + "/")]
    # directories (relative to tree root) from the package directory downwards that hold python files
    pydirs: set[str] = set()
    for p in files:
        d = os.path.dirname(p)
        while True:
            pydirs.add(d)
            if d == sub_rel or not d:
                break
            d = os.path.dirname(d)
    skipped = {d for d in pydirs if any(part in SKIP_NAMES or part.startswith(".") for part in (d[len(sub_rel):].strip("/").split("/") if d != sub_rel else []))}
    live = pydirs - skipped
    for d in live:
        below = d[len(sub_rel):].strip("/") if sub_rel else d
        for part in (below.split("/") if below else []):
            if not part.isidentifier():
                return "dir-name-not-identifier"
    # the same top-level name reachable from another search base
    bases = {os.path.normpath(cwd)}
    if res.get("mypypath"):
        bases.add(os.path.normpath(res["mypypath"]))
    if top_name_in_other_base(res, pk["name"], base):
        return "ambiguous-across-bases"
    def init(d: str) -> bool:
        return c18_gen.has_init(layout, d)

    # ancestors of the package directory inside the tree (the case dir above the tree is not an identifier)
    anc: list[str] = []
    if sub_rel:
        a = os.path.dirname(sub_rel)
        while True:
            anc.append(a)
            if not a:
                break
            a = os.path.dirname(a)
    if ns == "epb":
        for b in bases:
            if b == d_abs or b.startswith(d_abs + "/"):
                return "explicit-base-inside-package"
        return None
    if ns == "off":
        if anc and init(anc[0]):
            return "container-is-package"
        if any(not init(d) for d in live):
            return "ns-off:dir-without-init"
        return None
    # ns on, no explicit bases: the crawl climbs to the highest __init__
    if any(init(a) for a in anc):
        return "container-is-package"
    if not init(sub_rel):
        return "ns-on:top-without-init"
    return None


# --- the oracle -----------------------------------------------------------------------------------

def judge(ctx: common.Ctx, t: dict[str, Any], res: dict[str, Any]) -> None:
    layout = res["layout"]
    runs = res["runs"]
    by_style = {r["style"]: r for r in runs}
    witness_base = {"task": {k: v for k, v in t.items() if not k.startswith("_")},
                    "config": {k: res.get(k) for k in ("ns", "cwd_kind", "cwd", "target", "mypypath", "mp_val", "mp_via", "import_mode")},
                    "layout": layout, "assigned": res.get("assigned"), "texts": res.get("texts")}

    def wit(*rs: dict[str, Any], **extra: Any) -> dict[str, Any]:
        w = dict(witness_base)
        w["runs"] = [{k: r.get(k) for k in ("style", "args", "cwd", "env", "status", "outcome", "diags")} |
                     {"sources": (r["lg"] or {}).get("sources"), "graph": (r["lg"] or {}).get("graph"),
                      "python_path": (r["lg"] or {}).get("python_path"), "mypy_path": (r["lg"] or {}).get("mypy_path")} for r in rs]
        w.update(extra)
        return w

    crashed = [r for r in runs if r["outcome"] == "crash"]
    if crashed:
        # the crash itself belongs to C20; the graph the run had loaded before it is still judged (G) below
        ctx.inconc("internal-failure (owner: C20)")
        inc = ctx.extra.setdefault("foreign_incidents", [])
        if len(inc) < 20:
            inc.append({"owner": "C20", "layout": layout, "args": crashed[0]["args"][2:], "witness": crashed[0].get("crash") or crashed[0].get("internal")})
    evaluated = False
    for r in runs:
        ctx.cell(f"outcome:{r['style'].split(':')[0].split('#')[0]}:{r['outcome'].split(':')[0]}")
        lg = r["lg"]
        if r["outcome"] == "ok" and (not lg or "graph" not in lg):
            ctx.inconc("hook-not-reached")
            continue
        if not lg or "graph" not in lg:
            continue
        # --- G: invariants on the live graph
        ctx.count()
        evaluated = True
        if lg["multi_owner"]:
            p, ids = sorted(lg["multi_owner"].items())[0]
            srcmods = {s["module"] for s in lg["sources"]}
            nsrc = sum(1 for i in ids if i in srcmods)
            kind = "source+source" if nsrc >= 2 else "source+import" if nsrc else "import+import"
            if any(not part.isidentifier() for i in ids for part in i.split(".")):
                kind += ":module-id-with-non-identifier-component"
            mpp = res.get("mypypath")
            if mpp and os.path.normpath(mpp) != os.path.normpath(c18_gen.ROOT) and res.get("cwd_kind") != "parent":
                # the configured search root lies INSIDE another search base (cwd / crawled base): one file legitimately has
                # two dotted paths; mypy neither stops nor picks one
                kind += ":search-root-nested-in-another"
            ctx.violation(f"graph:file-under-two-module-names:{kind}",
                          f"no stop, yet file {p} is in the graph as modules {ids}", wit(r, file=p, ids=ids))
        if lg["key_mismatch"]:
            ctx.violation("graph:key-differs-from-state-id", f"graph key != State.id: {lg['key_mismatch'][:3]}", wit(r))
        g = graph_map(lg)
        for p, m in file_sources(lg).items():
            if m not in g:
                ctx.violation(f"graph:source-module-missing:{shape_of_file(p, layout)}:{cfg_tag(res)}",
                              f"source {p} was assigned module {m!r} which is not in the graph", wit(r, file=p, module=m))
                break
            if g[m] not in (p, sibling_stub(p)):
                ctx.violation(f"graph:source-module-owned-by-other-file:{shape_of_file(p, layout)}->{shape_of_file(g[m], layout)}:{cfg_tag(res)}",
                              f"source {p} was assigned module {m!r} but the graph holds {g[m]} for it", wit(r, file=p, module=m))
                break
        # --- A: exact diagnostics in assigned-import mode
        if res["import_mode"] == "assigned" and r["style"].split("#")[0] in ("dir", "files") and r["outcome"] == "ok":
            ctx.count()
            judge_assigned(ctx, res, r, wit)
    if crashed:
        return
    # --- O: directory vs explicit files in other orders
    d = by_style.get("dir")
    for r in runs:
        if d is not None and r["style"].startswith("files#"):
            ctx.count()
            evaluated = True
            k = diff_key("order", d, r, res)
            ctx.cell("O:" + ("equal" if k is None else "differs") + ":" + d["outcome"].split(":")[0])
            if k:
                ctx.violation(k[0], "`mypy DIR` and the files it expands to (other order) disagree: " + k[1], wit(d, r))
    # --- D: the directory vs every python file below it listed individually (only where such a listing is accepted:
    # a stub beside its source or a module beside its package make the listing a duplicate-module stop)
    af = by_style.get("allfiles")
    if d is not None and af is not None:
        if af["outcome"] != "ok":
            ctx.cell("D:not-comparable:listing-every-file-stops:" + af["outcome"].split(":")[0])
        else:
            ctx.count()
            evaluated = True
            k = diff_key("dir-vs-allfiles", d, af, res, compare_sources=False)
            if k and d["outcome"] == "ok":
                # a name that the directory run had to look up (an ancestor of a source) and found under another
                # search base outside the directory: ambiguity between search bases, not a mapping disagreement
                tdir = os.path.normpath(os.path.join(res["cwd"], res["target"]))
                only_dir = set(graph_map(d["lg"], dirs=False).values()) - set(graph_map(af["lg"], dirs=False).values())
                if any(not (f == tdir or f.startswith(tdir + "/") or tdir == ".") for f in only_dir):
                    ctx.cell("D:not-comparable:name-resolved-outside-directory")
                    k = None
            ctx.cell("D:" + ("equal" if k is None else "differs"))
            if k:
                ctx.violation(k[0], "`mypy DIR` and listing every python file below DIR disagree: " + k[1], wit(d, af))
    elif d is not None and res.get("allfiles_same_as_expansion"):
        ctx.cell("D:listing-equals-expansion (covered by O)")
    # --- P: -p PKG vs the package directory
    for pk in res.get("packages", []):
        rp, rd = runs[pk["p_run"]], runs[pk["dir_run"]]
        why = comparable_p(res, pk)
        if why:
            ctx.cell("P:not-comparable:" + why)
            continue
        ctx.count()
        evaluated = True
        k = diff_key("p-vs-dir", rd, rp, res)
        ctx.cell("P:" + ("equal" if k is None else "differs") + ":" + rd["outcome"].split(":")[0])
        if k:
            ctx.violation(k[0], f"`mypy {pk['dir']}` and `mypy -p {pk['name']}` disagree: " + k[1], wit(rd, rp, package=pk))
    # --- M: -m MOD vs the file
    for mm in res.get("modules", []):
        rm, rf = runs[mm["m_run"]], runs[mm["file_run"]]
        if rf["outcome"] != "ok":
            ctx.cell("M:file-run-stops")
            continue
        if top_name_in_other_base(res, mm["module"].split(".")[0], (rf["lg"]["sources"][0]["base_dir"] or ".")):
            ctx.cell("M:not-comparable:ambiguous-across-bases")
            continue
        if any(not part.isidentifier() for part in os.path.dirname(mm["file"]).split("/") if part):
            ctx.cell("M:not-comparable:dir-name-not-identifier")  # incl. PEP 561 '-stubs' directories
            continue
        ctx.count()
        evaluated = True
        key = None
        if rm["outcome"] != "ok":
            key = f"m-vs-file:outcome:ok-vs-{rm['outcome']}:{shape_of_file(mm['file'], layout)}:{cfg_tag(res)}"
            text = f"`mypy {mm['file']}` is fine but `mypy -m {mm['module']}` ends with {rm['outcome']}"
        else:
            got = graph_map(rm["lg"]).get(mm["module"])
            if got not in (mm["file"], sibling_stub(mm["file"])):
                if got and got == os.path.splitext(mm["file"])[0]:
                    key = "m-vs-file:resolves-elsewhere:same-name-directory-without-init-instead-of-module"
                else:
                    key = (f"m-vs-file:resolves-elsewhere:{shape_of_file(mm['file'], layout)}->"
                           f"{shape_of_file(got, layout) if got else 'nothing'}:{cfg_tag(res)}")
                text = f"module {mm['module']!r} (the name assigned to {mm['file']}) resolves to {got}"
        ctx.cell("M:" + ("equal" if key is None else "differs"))
        if key:
            ctx.violation(key, text, wit(rf, rm, module=mm))
    # --- fresh-process cross-check of the in-process observation
    if res.get("cli") and d is not None:
        c = res["cli"]
        if c["status"] is None:
            ctx.inconc("cli-watchdog")
        elif c["outcome"] != d["outcome"] or sorted(c["diags"]) != sorted(d["diags"]):
            ctx.inconc("cli-differs-from-inproc")
            ctx.extra.setdefault("cli_mismatch", []).append({"layout": layout, "cli": c, "inproc": d["diags"], "args": d["args"]})
        else:
            ctx.cell("cli-crosscheck:equal")
    if evaluated:
        ctx.cell(f"config:ns={res['ns']}|cwd={res['cwd_kind']}|mypypath={t['args']['mp_kind'] if res.get('mypypath') else 'none'}")
        ctx.cell("imports:" + res["import_mode"])
        ctx.cell("space:" + t["_space"])
        for f in c18_gen.features(tuple(layout)):
            ctx.cell("layout:" + f)
        if c18_gen.nontrivial(tuple(layout)):
            ctx.nontriv(c18_gen.canon(layout), res["ns"], res["cwd_kind"], res.get("mp_val"), res["import_mode"])
        if d is not None and len(ctx.samples) < ctx.max_samples and len(layout) >= 3 and c18_gen.nontrivial(tuple(layout)) \
                and not any(s.get("outcome") == d["outcome"] for s in ctx.samples):
            ctx.sample({"layout": layout, "ns": res["ns"], "cwd": res["cwd"], "mypypath": res.get("mp_val"),
                        "imports": res["import_mode"], "outcome": d["outcome"],
                        "assigned": res.get("assigned"), "styles": [r["style"] for r in runs],
                        "first_diag": (d["diags"] or [""])[0][:160]})


def judge_assigned(ctx: common.Ctx, res: dict[str, Any], r: dict[str, Any], wit: Any) -> None:
    layout = res["layout"]
    texts = res["texts"]
    idx = {p: i for i, p in enumerate(layout)}
    lg = r["lg"]
    expected: set[tuple[str, int, str]] = set()
    for mid, v in lg["graph"].items():
        p = v["path"]
        if v["isdir"] or not p.startswith(c18_gen.ROOT + "/"):
            continue
        rel = p[len(c18_gen.ROOT) + 1:]
        if rel not in texts:
            continue
        n = texts[rel].count("\n")
        expected.add((p, n - 1, "name-defined"))
        expected.add((p, n, "assignment"))
    got = {(d["file"], d["line"], d["code"]) for d in parsed(r["diags"]) if d["sev"] == "error"}
    notes = [d for d in parsed(r["diags"]) if d["sev"] != "error"]
    missing = sorted(expected - got, key=str)
    extra = sorted(got - expected, key=str)
    if not missing and not extra and not notes:
        ctx.cell("A:exact")
        return
    ctx.cell("A:differs")
    assigned = res.get("assigned") or {}
    if extra:
        f, line, code = extra[0]
        rel = f[len(c18_gen.ROOT) + 1:] if f and f.startswith(c18_gen.ROOT + "/") else f
        src_line = (texts.get(rel, "").splitlines() + [""] * 50)[(line or 1) - 1] if rel in texts else ""
        m = re.match(r"from (\S+) import T_(\d+) as", src_line)
        if m:
            target = layout[int(m.group(2))]
            kind = {"import-not-found": "does-not-resolve", "attr-defined": "binds-to-another-file",
                    "import-untyped": "does-not-resolve"}.get(code or "", f"other-{code}")
            key = f"assigned-name-import:{kind}:{shape_of_file(c18_gen.ROOT + '/' + target, layout)}:{cfg_tag(res)}"
            what = (f"{f} imports {m.group(1)!r}, the module name mypy assigned to {target}, and gets [{code}]")
        else:
            key = f"assigned-mode:unexpected-diagnostic:{code}:{cfg_tag(res)}"
            what = f"unexpected diagnostic {extra[0]}"
    elif missing:
        f, line, code = missing[0]
        key = f"assigned-mode:file-in-graph-not-checked:{code}:{shape_of_file(f, layout)}:{cfg_tag(res)}"
        what = f"deliberate [{code}] error of {f} (in the graph) was not reported"
    else:
        key = f"assigned-mode:unexpected-note:{cfg_tag(res)}"
        what = f"unexpected note {notes[0]}"
    ctx.violation(key, what, wit(r, missing=missing[:6], extra=extra[:6]))


def run(ctx: common.Ctx) -> None:
    quick = ctx.tier == "quick"
    scale = float(os.environ.get("VERIF_SCALE", "1"))
    if quick:
        n_core: int | None = max(3, int(420 * scale))
        n_ext, n_cli, core_max = max(3, int(580 * scale)), max(1, int(24 * scale)), 3
    else:
        n_core = max(3, int(3000 * scale))
        n_ext, n_cli, core_max = max(3, int(2500 * scale)), max(1, int(100 * scale)), 3
    ctx.rule = ("layout = set of files over root/{a,b}/{a,b} x {__init__,a,b} x {.py,.pyi} (core: every layout of <= 3 files, one per "
                "a<->b class) or sampled 2-8 files, depth <= 3, with -stubs / invalid-identifier / dot / __pycache__ / site-packages "
                "directory names; x namespace_packages off/on/+explicit_package_bases x cwd parent/root/inside x MYPYPATH|mypy_path "
                "none/root/subdir (absolute or relative) x imports by assigned names | by every dotted path suffix. "
                "non-trivial = >= 2 files in >= 2 directories with >= 1 directory lacking __init__, and >= 1 oracle evaluated on it; "
                "distinct by (canonical layout, ns mode, cwd, search root, import mode). All four outcome classes "
                "(ok, duplicate-module, found-twice, invalid-package-name) must occur in the run.")
    ctx.assumptions += [
        "every run analyses user files from source (private copy of a typeshed-only cache per run)",
        "diagnostics compared as multisets of lines with the file part resolved against the working directory",
        "the once-per-run hint note 'See https://...#missing-imports' is dropped before comparison: which file carries it "
        "depends on processing order by design",
        "stops with a documented error (duplicate module, found twice, invalid package name) are legitimate outcomes; "
        "their message text (which of the two files is named first) is not compared, the outcome class is",
        "-p PKG is compared with `mypy DIR` only where running_mypy.rst makes the directory above PKG the crawl base "
        "(comparable_p: identifier directory names only, the top-level name not also provided by another search base or by a "
        "<name>-stubs directory, __init__ everywhere without namespace packages, top-level __init__ and no package above with "
        "them, no explicit base inside the package with explicit bases); -m MOD likewise",
        "graphs are compared on files: namespace-package directory states carry no diagnostics, and which directory an "
        "ambiguous namespace name binds to follows the search-path order (= order of the sources) by design",
        "`mypy DIR` is compared with the listing of every python file below DIR only when that listing is itself accepted "
        "(a stub beside its source or a module beside its package make it a duplicate-module stop: there the crawl's "
        "preference is the documented behaviour) and no looked-up name was found outside DIR under another search base",
        "in-process mypy.main.main; a sample is re-run as a fresh `python -m mypy` process and must agree",
        "trusted base: CPython, the OS file system (case-sensitive)",
    ]
    outcomes_seen: set[str] = set()
    n_tasks = 0
    tasks = list(gen_cases(ctx, n_core, n_ext, n_cli, core_max))
    ctx.extra["tasks_planned"] = len(tasks)
    # floors from the plan, not from what came back: the unchanged tree yields ~8.5 evaluations per case and
    # ~0.86 distinct non-trivial cases per case
    ctx.floor_evaluations = len(tasks) * 3
    ctx.floor_nontrivial = int(len(tasks) * 0.3)
    with common.workdir("C18") as wd:
        env = common.base_env(VERIF_POOL_ROOT=wd)
        with Pool(env=env) as pool:
            for t, r in pool.imap(iter(tasks), timeout=300):
                n_tasks += 1
                if not r.get("ok"):
                    ctx.inconc("runner:" + ("timeout" if r.get("timeout") else f"died:rc={r.get('returncode')}" if r.get("died") else str(r.get("exc"))[:80]))
                    continue
                res = r["res"]
                for run_ in res["runs"]:
                    outcomes_seen.add(run_["outcome"])
                judge(ctx, t, res)
    ctx.extra["tasks"] = n_tasks
    ctx.extra["outcome_classes_seen"] = sorted(outcomes_seen)
    missing = [o for o in ("ok", *STOPS) if o not in outcomes_seen]
    if missing:
        ctx.inconc("outcome-class-never-observed:" + ",".join(missing))
        ctx.floor_nontrivial = max(ctx.floor_nontrivial, 10 ** 9)
    ctx.exhaustive = False


def replay(ctx: common.Ctx, rep: dict[str, Any]) -> int:
    """Re-execute the case of one witness and judge it again."""
    task = dict(rep["witness"]["task"])
    task["_layout"] = tuple(task["args"]["layout"])
    task["_space"] = "replay"
    with common.workdir("C18r") as wd:
        with Pool(n=1, env=common.base_env(VERIF_POOL_ROOT=wd)) as pool:
            for t, r in pool.imap([task], timeout=300):
                if not r.get("ok"):
                    print("replay: runner failed", r)
                    return 2
                judge(ctx, t, r["res"])
                for run_ in r["res"]["runs"]:
                    print(run_["style"], run_["args"], "->", run_["outcome"])
                    for ln in run_["diags"]:
                        print("    " + ln)
    for v in ctx.violations:
        print("VIOLATION key=" + v["key"], "::", v["what"])
    for k, h in ctx.known_hits.items():
        print("KNOWN-FINDING key=" + k, "::", h["what"])
    return 1 if ctx.violations or ctx.known_hits else 0
