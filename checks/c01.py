"""C01 - accepted programs do not go wrong.

Static side: the real mypy (build.build with export_types) on the unmodified program under the strict Any-free
flag set; a recording wrapper on TypeChecker.accept lists the statements the checker visited. Dynamic side: an
instrumented copy runs in a forked child under sys.monitoring: E1 = TypeError/AttributeError first raised by an
operation of the program (not an explicit raise), E2 = a statement executes that the checker never visited,
E3 = a value is not a member of the static type of its expression (three-valued runtime membership oracle)."""

from __future__ import annotations

import os
import re
from typing import Any, Iterator

from vlib import common, corpus, typedgen
from vlib.pool import Pool


def gen(ctx: common.Ctx, n_gen: int, n_mut: int, n_corpus: int) -> Iterator[dict[str, Any]]:
    for k in range(n_gen):
        src, feats = typedgen.generate(("C01", ctx.seed, k), n_funcs=4 + k % 4)
        yield {"fn": "vlib.tasks.soundness:case", "args": {"src": src, "n_mutants": n_mut, "key": ["C01", ctx.seed, k]},
               "_k": k, "_feats": feats, "_origin": "typedgen"}
    cases = [c for c in corpus.load(["check-*.test", "pythoneval*.test"]) if not c.files and not corpus.uses_fixture_only_features(c) and not c.cmd and not c.flags]
    import random
    rng = random.Random("C01-core-corpus")   # seed-independent: soundness holes shown by corpus programs are listed per program
    rng.shuffle(cases)
    for c in cases[:n_corpus]:
        src = re.sub(r"(?m)[ \t]*# [ENW]:.*$", "", c.main)
        yield {"fn": "vlib.tasks.soundness:case", "args": {"src": src, "n_mutants": 0, "key": ["C01", c.id], "origin": "corpus"},
               "_k": c.id, "_feats": [], "_origin": "corpus"}


def classify_e1(e: dict[str, Any]) -> str:
    msg = re.sub(r"'[^']*'", "'X'", e["msg"])
    msg = re.sub(r"\d+", "N", msg)
    return f"E1:{e['exc']}:{e['opcode']}:{msg[:60]}"


def run(ctx: common.Ctx) -> None:
    quick = ctx.tier == "quick"
    scale = float(os.environ.get("VERIF_SCALE", "1"))
    n_gen, n_mut, n_corpus = (int(500 * scale), 3, int(1500 * scale)) if quick else (int(3000 * scale), 5, int(5000 * scale))
    ctx.rule = ("typedgen programs (typed by construction: classes+inheritance, generics, unions/Optional, literals, tuples, containers, "
                "callables, protocols, dataclasses, enums, NamedTuple; if/for/while/try/match; all narrowing forms on locals) with "
                "generated drivers, their single-edit ill-typed perturbations that mypy still accepts, and corpus programs inside the "
                "fragment; non-trivial = accepted, executed to a normal end or a non-E1 exception, >=10 probes with decided membership, "
                ">=1 probe of a non-scalar static type; distinct by source hash")
    ctx.assumptions += ["fragment: no cast/ignore/TypeGuard/Any/untyped defs/global/del/dynamic attribute access; narrowing subjects are plain names",
                        "membership oracle is three-valued: unknown (unresolvable runtime class, Any) never counts",
                        "typedgen avoids int->float promotion inside unions (documented PEP 484 unsoundness)",
                        "dataclasses.field() calls are not probed (typeshed types them as the field type by design)"]
    ctx.floor_nontrivial = max(2, int(n_gen * 0.3))
    ctx.floor_evaluations = max(2, int(n_gen * 0.5))
    probes = decided = unknown = 0
    with common.workdir("C01") as wd:
        env = common.base_env(VERIF_POOL_ROOT=wd)
        with Pool(env=env) as pool:
            for t, r in pool.imap(gen(ctx, n_gen, n_mut, n_corpus), timeout=600):
                if not r.get("ok"):
                    ctx.inconc("runner:" + ("timeout" if r.get("timeout") else "died" if r.get("died") else str(r.get("exc"))[:80]))
                    continue
                res = r["res"]
                items = [("base", res["base"], t["args"]["src"])] + [("mutant:" + m.get("op", "?"), m, m.get("src", "")) for m in res["mutants"]]
                for kind, x, src in items:
                    if x.get("skipped"):
                        ctx.cell(f"{t['_origin']}:skipped:" + x["skipped"].split(":")[0] + ":" + x["skipped"].split(":")[1][:30] if ":" in x["skipped"] else f"{t['_origin']}:skipped:" + x["skipped"][:40])
                        continue
                    if not x.get("accepted"):
                        ctx.cell(f"{t['_origin']}:{kind.split(':')[0]}:rejected-by-mypy")
                        if kind != "base":
                            ctx.cell("mutant-rejected:" + kind.split(":")[1])
                        continue
                    if x.get("timeout") or x.get("child_died") is not None or x.get("child_error") or x.get("child_garbled"):
                        ctx.inconc("execution:" + ("timeout" if x.get("timeout") else "child-failed"))
                        continue
                    ctx.count()
                    ctx.cell(f"{t['_origin']}:{kind.split(':')[0]}:accepted-and-executed")
                    if kind != "base":
                        ctx.cell("mutant-accepted:" + kind.split(":")[1])
                    probes += x.get("probes", 0)
                    decided += x.get("decided", 0)
                    unknown += x.get("unknown", 0)
                    for f in t["_feats"]:
                        if kind == "base":
                            ctx.cell("feature:" + f)
                    if x.get("decided", 0) >= 10 and x.get("nontrivial_probe"):
                        ctx.nontriv(src or (t["_k"], kind))
                    cid = f"{t['_origin']}:{t['_k']}:{kind}" if t["_origin"] == "corpus" else None
                    wit = {"origin": t["_origin"], "case": t["_k"], "kind": kind, "program": src, "end": x.get("end"), "end_msg": x.get("end_msg")}
                    for e in x.get("e1", []):
                        ctx.violation(classify_e1(e), f"{e['exc']} raised by an operation of an accepted program: {e['msg']} (line {e['line']}, {e['func']})", {**wit, "e1": e}, case=cid)
                        break
                    for ln in x.get("e2", [])[:1]:
                        ctx.violation("E2:statement-executed-but-never-visited-by-checker", f"line {ln} executed although the checker treated it as unreachable", {**wit, "line": ln}, case=cid)
                    for e in x.get("e3", [])[:1]:
                        st = re.sub(r"\[.*", "[...]", e["static_type"])
                        ctx.violation(f"E3:value-not-in-static-type:{st}:runtime={e['runtime_type']}",
                                      f"expression {e.get('source')!r} has static type {e['static_type']} but evaluated to {e['value']} ({e['runtime_type']})", {**wit, "e3": e}, case=cid)
                    if not (x.get("e1") or x.get("e2") or x.get("e3")) and kind == "base" and len(ctx.samples) < 5:
                        ctx.sample({"origin": t["_origin"], "case": t["_k"], "end": x.get("end"), "probes": x.get("probes"), "decided": x.get("decided"),
                                    "statements": x.get("n_statements"), "unvisited_by_checker": x.get("n_unvisited"), "features": t["_feats"][:8]})
    ctx.extra["probes_evaluated"] = probes
    ctx.extra["probes_decided"] = decided
    ctx.extra["probes_unknown"] = unknown
