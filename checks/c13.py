"""C13 - error suppression is exact and the exit status tells the truth.

Metamorphic monitor: run 1 records the raw ErrorInfo stream (wrappers on the real Errors class); for each
transformation (a `# type: ignore[...]` appended to a chosen line, or --disable-error-code) the predictor derives
MUST_VANISH / MUST_STAY / EITHER from codes, origin spans, blocker flags and parent links, and run 2 must agree."""

from __future__ import annotations

import os
import re
from typing import Any, Iterator

from vlib import common, corpus, mutators
from vlib.pool import Pool
from checks.c20 import clean_flags


MULTILINE = [
    # errors whose origin span covers several physical lines (secondary contexts, decorators, multi-line signatures/calls)
    "class A:\n    def f(self, x: int) -> None: ...\n    def __eq__(self, other: object) -> bool: return True\nclass B(A):\n    def f(self,\n          x: str) -> None: ...\n    def __eq__(self,\n               other: 'B') -> bool: return True\n",
    "class P:\n    def __eq__(self,\n               other: int,\n               ) -> bool:\n        return True\n    def __ne__(\n        self, other: str\n    ) -> bool:\n        return False\n",
    "def f(a: int,\n      b: str) -> None: ...\nf(\n    'x',\n    1,\n)\nf('y',\n  2)\n",
    "from typing import Callable\ndef deco(f: Callable[[int], int]) -> Callable[[int], int]: return f\n@deco\ndef g(\n    x: str,\n) -> int:\n    return 1\n",
    "x: int = (\n    'a'\n    'b'\n)\ny: dict[str, int] = {\n    'k': 'v',\n    'k2': 2,\n    3: 3,\n}\n",
    "class Base:\n    @property\n    def p(self) -> int: return 1\n    def m(self, a: int, b: int) -> int: return a\nclass D(Base):\n    @property\n    def p(self) -> str: return ''\n    def m(self,\n          a: int,\n          b: str,\n          ) -> str:\n        return b\n",
    "import os\nfrom typing import (\n    List,\n    NoSuchName,\n    Dict,\n)\nfrom os import (\n    path,\n    nothing_here,\n)\n",
    "def h() -> int:\n    return (\n        'not'\n        ' an int'\n    )\nz = [\n    1 + '',\n    2 + '',\n]\n",
    "from typing import overload\n@overload\ndef o(x: int) -> int: ...\n@overload\ndef o(x: str) -> str: ...\ndef o(x):\n    return x\no(\n    b'bytes'\n)\n",
    "class T:\n    def __init__(self,\n                 a: int) -> None:\n        self.a: str = a\nT(\n  'q')\nwith open(1.5) as fh, \\\n     open(2.5) as gh:\n    pass\n",
]


def gen(ctx: common.Ctx, n: int) -> Iterator[dict[str, Any]]:
    for mi, msrc in enumerate(MULTILINE):
        for rep in range(3):
            yield {"fn": "vlib.tasks.suppress:suppress",
                   "args": {"files": {"main.py": msrc}, "flags": [], "target": "main.py", "key": ["C13", "multiline", mi, rep],
                            "n_transforms": 8, "all_span_lines": True},
                   "_case": f"multiline{mi}.{rep}", "_ops": ["multiline"]}
    cases = [c for c in corpus.load(["check-*.test"]) if not corpus.uses_fixture_only_features(c) and not c.cmd and not corpus.has_config_files(c)]
    import random
    rng = random.Random("C13-core-order")   # core workload is seed-independent
    rng.shuffle(cases)
    texts = [c.main for c in cases[:300]]
    for k in range(n):
        c = cases[k % len(cases)]
        # drop the test-data expectation comments (`# E: ...`): they are comments, and an ignore can only be
        # appended to a line that has none
        files = {p: re.sub(r"(?m)[ \t]*# [ENW]:.*$", "", t) for p, t in c.all_files().items()}
        r = random.Random(f"C13-core-{c.id}-{k}")
        ops: list[str] = []
        if k >= len(cases) or r.random() < 0.25:
            m = mutators.mutate(files["main.py"], r, others=texts, n=1, ops=["rename_ident", "replace_type", "swap_stmts", "delete_stmt"])
            if m:
                files["main.py"], ops = m
        flags = [f for f in clean_flags(c.flags) if not f.startswith(("--warn-unused-ignores", "--no-warn-unused", "--show-error-context",
                                                                       "--hide-error-codes", "--pretty", "--disable-error-code",
                                                                       "--enable-error-code", "--soft-error", "--no-error-summary"))]
        # drop arguments orphaned by the filter above
        flags = [f for i, f in enumerate(flags) if f.startswith("-") or (i > 0 and flags[i - 1] in ("--python-version", "--platform", "--always-true", "--always-false", "--follow-imports"))]
        yield {"fn": "vlib.tasks.suppress:suppress",
               "args": {"files": files, "flags": flags, "target": "main.py", "key": ["C13", "core", c.id, k],
                        "n_transforms": 3 if ctx.tier == "quick" else 4},
               "_case": f"{c.id}:{common.fingerprint(files)[:8]}", "_ops": ops}
    # exploration slice (VERIF_SEED-dependent): generated typed programs made ill-typed by one or two perturbations
    from vlib import typedgen
    for j in range(max(20, n // 10)):
        src, _ = typedgen.generate(("C13x", ctx.seed, j), n_funcs=3 + j % 3)
        r2 = common.rng_for("C13x", ctx.seed, j)
        ops2 = []
        for _ in range(r2.randint(1, 3)):
            m2 = typedgen.perturb(src, r2)
            if m2:
                src, op = m2
                ops2.append(op)
        yield {"fn": "vlib.tasks.suppress:suppress",
               "args": {"files": {"main.py": src}, "flags": r2.choice([[], ["--strict"], ["--warn-unreachable"]]), "target": "main.py",
                        "key": ["C13x", ctx.seed, j], "n_transforms": 3 if ctx.tier == "quick" else 4},
               "_case": f"x:typedgen{j}", "_ops": ops2}


def _simplified(case: dict[str, Any], out_before: str = "") -> bool:
    """mypy skips expensive message details (suggestions, notes) on lines that carry any ignore comment
    (Errors.prefer_simple_messages): the surviving diagnostic then has the same code and a shorter text."""
    import ast as _ast
    from vlib import diag as _d
    gone = [b for b in case["bad"] if b.startswith("unrelated diagnostic disappeared: ")]
    new = [b for b in case["bad"] if b.startswith("new diagnostic appeared: ")]
    if case["kind"] != "ignore" or not case["codes"] or len(gone) + len(new) != len(case["bad"]) or not new:
        return False
    try:
        g = [_ast.literal_eval(b.split(": ", 1)[1]) for b in gone]
        n = [_ast.literal_eval(b.split(": ", 1)[1]) for b in new]
    except Exception:
        return False
    before = [(e["file"], e["line"], e["sev"], re.sub(r"  \[[a-z0-9-]+\]$", "", e["msg"])) for e in _d.parse(out_before)]
    for y in n:
        if y[1] != case["line"]:
            return False
        # the detailed message of run 1 starts with the simplified one of run 2 (e.g. '...; did you mean "x"?' dropped)
        if not any(x[:3] == tuple(y[:3]) and x[3] != y[3] and x[3].startswith(y[3].rstrip("?.")) for x in before):
            return False
    # the detailed message itself, and notes that belonged to it, disappear with it - all on the ignored line
    return all(x[1] == case["line"] for x in g)


def mech(bad: str, case: dict[str, Any], out_before: str = "") -> str:
    if _simplified(case, out_before):
        return "ignore:coded:message-simplified-on-line-with-nonmatching-ignore(prefer_simple_messages)"
    kind = case["kind"] + (":bare" if case["kind"] == "ignore" and not case["codes"] else ":coded" if case["kind"] == "ignore" else "")
    what = bad.split(":")[0]
    m = re.search(r"'(error|note|warning)'", bad)
    sev = m.group(1) if m else ""
    return f"{kind}:{what}" + (f":{sev}" if sev else "")


def run(ctx: common.Ctx) -> None:
    quick = ctx.tier == "quick"
    n = 2500 if quick else 4000
    n = max(10, int(n * float(os.environ.get("VERIF_SCALE", "1"))))
    ctx.rule = ("check-* corpus program (sometimes with one type-breaking mutation) x transformations: `# type: ignore` bare / "
                "correct code / wrong code / multi-code on error lines, span-interior lines and random lines; --disable-error-code "
                "per code present; non-trivial = transformation with MUST_VANISH and MUST_STAY both non-empty; distinct by "
                "(program, line, codes)")
    ctx.assumptions += ["comments inserted only where tokenize/ast prove the program unchanged", "only_once notes and parentless notes on the ignored line are EITHER (never judged)",
                        "runs use --warn-unused-ignores; real typeshed"]
    ctx.floor_nontrivial = int(n * 0.12)
    ctx.floor_evaluations = int(n * 0.5)
    with common.workdir("C13") as wd:
        env = common.base_env(VERIF_POOL_ROOT=wd)
        with Pool(env=env) as pool:
            for t, r in pool.imap(gen(ctx, n), timeout=300):
                if not r.get("ok"):
                    ctx.inconc("runner:" + ("timeout" if r.get("timeout") else "died" if r.get("died") else str(r.get("exc"))[:60]))
                    continue
                res = r["res"]
                if res.get("skipped"):
                    ctx.cell("skipped:" + res["skipped"])
                    if res.get("failed"):
                        ctx.inconc("internal-failure (owner: C20)")
                    continue
                if res.get("json_status_mismatch"):
                    ctx.violation("exit-status:differs-with---output-json", f"exit status {res['json_status_mismatch']}", {"task": t, **res["json_status_mismatch"]}, case=t["_case"])
                if res.get("status_ok") is False:
                    ctx.violation("exit-status:baseline", f"exit status {res['status0']} inconsistent with error lines", {"task": t, "out": res["out0"]}, case=t["_case"])
                for case in res["cases"]:
                    if case.get("skipped") or case.get("failed"):
                        ctx.cell("case-skipped:" + str(case.get("skipped") or "failed"))
                        continue
                    ctx.count()
                    ctx.cell("kind:" + case["kind"])
                    for c in case.get("vanish_codes", []):
                        ctx.cell("code-suppressed:" + c)
                    if case["n_vanish"] and case["n_stay"]:
                        ctx.nontriv(t["_case"], tuple(t["_ops"]), case["kind"], case["line"], tuple(case["codes"] or []))
                    if case["bad"]:
                        ctx.violation(mech(case["bad"][0], case, res["out0"]), "; ".join(case["bad"])[:400],
                                      {"task": t, "case": case, "out_before": res["out0"]}, case=f"{t['_case']}:{case['kind']}@{case['line']}:{','.join(case['codes'] or [])}")
                    elif case["n_vanish"] and case["n_stay"]:
                        ctx.sample({"program": t["_case"], "kind": case["kind"], "line": case["line"], "codes": case["codes"],
                                    "vanished": case["n_vanish"], "stayed": case["n_stay"], "either": case["n_either"]})
