"""C02 - incremental (warm-cache) runs report exactly what a cold run reports.

M1: output/status equality of the warm run (cache left by all previous steps) with a cold run on the same
files, after every step of generated edit histories, in all four store x format configurations.
M2: freshness soundness - every user module the warm run trusted as fresh carries the interface hash
the cold run computes for it (probe on the real find_stale_sccs / process_graph)."""

from __future__ import annotations

import itertools
import os
from typing import Any, Iterator

from vlib import common, corpus, histgen
from vlib.pool import Pool
from vlib.tasks.incr import CONFIGS
from checks.c03 import _codes


def classify(st: dict[str, Any]) -> str:
    if st.get("equal_mod_once"):
        return "only_once-note-placement"
    diffs = st.get("diffs") or []
    if not diffs and st.get("status_equal") is False:
        return f"status-only:{st['warm']['status']}-vs-{st['cold']['status']}"
    miss = [x for d in diffs for x in d["only_b"]]
    extra = [x for d in diffs for x in d["only_a"]]
    if not miss and not extra:
        return "order-within-file"
    if all("Cannot determine type of" in x and x.rstrip().endswith("[has-type]") for x in miss + extra):
        # whether `Cannot determine type` is reported depends on which import cycle (SCC) the module is processed in;
        # the cached error list of a module that is itself fresh is replayed although its cycle was formed / broken
        return "cycle-dependent-has-type"
    if st["cold"]["status"] == 2 and st["warm"]["status"] == 2 and miss and not extra:
        return "while-blocked:warm-omits-nonblocking-diagnostics"
    if miss and not extra:
        return "warm-missing:" + ",".join(_codes(miss))
    if extra and not miss:
        return "warm-stale-extra:" + ",".join(_codes(extra))
    return "warm-differs:missing=" + ",".join(_codes(miss)) + ":extra=" + ",".join(_codes(extra))


# exploration slice: everything except module deletion (stale import-not-found after a deletion is a listed defect class of
# the unchanged tree; the core histories cover it per history+step)
EXPLORE_OPS = histgen.CONTENT_OPS + ["add_module", "stub_toggle", "to_package", "syntax_error"]


def gen(ctx: common.Ctx, n_hist: int, steps: tuple[int, int], all_configs: bool, explore: bool = False) -> Iterator[dict[str, Any]]:
    """core (explore=False): seed-independent histories over all edit operators; exploration: VERIF_SEED-dependent histories."""
    cfgs = list(CONFIGS)
    tag = ("C02x", ctx.seed) if explore else ("C02", "core" if ctx.tier == "quick" else "tcore")
    for k in range(n_hist):
        r = (common.rng_for if explore else common.rng_fixed)(*tag, "h", k)
        n = r.randint(*steps)
        # exploration avoids packages: deleting a submodule that its own package imports is a listed defect class of the
        # unchanged tree (core histories cover it, per history+step)
        h = histgen.history((*tag, k), fixed=not explore, n_steps=n, n_modules=r.randint(3, 8), packages=not explore,
                            ops=EXPLORE_OPS if explore else None)
        flags: list[str] = []
        if r.random() < 0.3:
            flags = r.choice([["--strict"], ["--warn-unreachable"], ["--disallow-any-generics"], ["--no-implicit-reexport"],
                              ["--python-version", "3.10"], ["--strict-equality"], ["--follow-imports=silent"]])
        if r.random() < 0.15:
            flags = [*flags, "--follow-imports=silent"] if "--follow-imports=silent" not in flags else flags
        skip = [i for i in range(1, n - 1) if r.random() < 0.12]
        targets = r.choice([["main.py"], ["main.py"], ["."]])
        for cfg in (cfgs if all_configs else [cfgs[k % 4]]):
            yield {"fn": "vlib.tasks.incr:run_history",
                   "args": {"versions": h["versions"], "flags": flags, "targets": targets, "config": cfg, "skip_runs": skip,
                            "mtime_back": h["mtime_back"],
                            "true_cold_steps": [i for i in range(n) if ctx.tier == "thorough" and (i + k) % 10 == 0]},
                   "_k": ("x" if explore else "core" if ctx.tier == "quick" else "tcore") + str(k), "_ops": h["ops"], "_cfg": cfg, "_skip": skip}


def gen_appear(ctx: common.Ctx) -> Iterator[dict[str, Any]]:
    """Deterministic matrix: a module / package the importer could not find appears, disappears and appears again while the
    importer itself is never edited (import form x kind of thing that appears x follow_imports x with/without ignore)."""
    forms = {"from-pkg-import-sub": "from pk import sub{ign}\nsub.f('x')\nreveal_type(sub.f)\n",
             "import-pkg.sub": "import pk.sub{ign}\npk.sub.f('x')\nreveal_type(pk.sub.f)\n",
             "from-pkg.sub-import-name": "from pk.sub import f{ign}\nf('x')\nreveal_type(f)\n",
             "import-pkg": "import pk{ign}\nreveal_type(pk)\npk.g('x')\n",
             "from-pkg-import-name": "from pk import g{ign}\ng('x')\nreveal_type(g)\n"}
    sub = "def f(x: int) -> int:\n    return x\nbad: int = ''\n"
    init = "def g(x: int) -> int:\n    return x\n"
    kinds = {"package": {"pk/__init__.py": init, "pk/sub.py": sub},
             "stub-package": {"pk/__init__.pyi": "def g(x: int) -> int: ...\n", "pk/sub.pyi": "def f(x: int) -> int: ...\n"},
             "namespace-package": {"pk/sub.py": sub},
             "module": {"pk.py": init + "class sub:\n    @staticmethod\n    def f(x: int) -> int:\n        return x\n"}}
    k = 0
    for form, text in forms.items():
        for kind, files in kinds.items():
            for follow in ("normal", "silent", "skip", "error"):
                for ign in ("", "  # type: ignore"):
                    base = {"main.py": text.format(ign=ign), "other.py": "import main\nx: int = ''\n"}
                    full = dict(base, **files)
                    versions = [base, full, base, full]
                    if kind == "package":
                        versions.append(dict(base, **{"pk/__init__.py": init}))   # the sub-module alone disappears
                    cfg = list(CONFIGS)[(k + k // 8) % 4]
                    k += 1
                    flags = ["--namespace-packages"] + ([] if follow == "normal" else [f"--follow-imports={follow}"])
                    yield {"fn": "vlib.tasks.incr:run_history",
                           "args": {"versions": versions, "flags": flags, "targets": ["main.py", "other.py"], "config": cfg},
                           "_k": f"appear:{form}:{kind}:{follow}:{'ignore' if ign else 'plain'}", "_ops": [["init"]] + [["add_module"], ["delete_module"]] * 3,
                           "_cfg": cfg, "_skip": []}


def gen_corpus(ctx: common.Ctx, n: int) -> Iterator[dict[str, Any]]:
    from checks.c20 import clean_flags
    cases = [c for c in corpus.load(["check-incremental.test", "fine-grained*.test"])
             if c.steps and not corpus.uses_fixture_only_features(c) and not c.cmd and not corpus.has_config_files(c)]
    import random
    rng = random.Random("C02-core-corpus")
    rng.shuffle(cases)
    for k, c in enumerate(cases[:n]):
        r = random.Random("C02-core-" + c.id)
        vers = [c.files_at(s) for s in range(1, c.nsteps() + 1)]
        seq = list(range(len(vers))) + [r.randrange(len(vers)) for _ in range(r.randint(1, 3))]
        versions = [vers[i] for i in seq]
        versions = [v for i, v in enumerate(versions) if i == 0 or v != versions[i - 1]]
        if len(versions) < 2:
            continue
        flags = [f for f in clean_flags(c.flags) if not f.startswith("--follow-imports")]
        yield {"fn": "vlib.tasks.incr:run_history",
               "args": {"versions": versions, "flags": flags, "targets": ["main.py"], "config": list(CONFIGS)[k % 4]},
               "_k": c.id, "_ops": [["corpus"]] * len(versions), "_cfg": list(CONFIGS)[k % 4], "_skip": []}


def run(ctx: common.Ctx) -> None:
    quick = ctx.tier == "quick"
    n_hist, steps, n_corpus = (220, (5, 12), 200) if quick else (200, (6, 14), 300)
    scale = float(os.environ.get("VERIF_SCALE", "1"))
    n_hist, n_corpus = max(1, int(n_hist * scale)), int(n_corpus * scale)
    ctx.rule = ("histgen edit history (3-8 modules; 26 edit operators incl. add/delete/rename module, stub appears/disappears, "
                "cycles, syntax error+repair, equal-size edit, revert) or shuffled corpus incremental versions; warm run after "
                "each step vs cold run; non-trivial step = warm run loaded >=1 user module from cache AND re-checked >=1; "
                "distinct by (edit ops, staleness reasons, config)")
    ctx.assumptions += ["logical clock: source mtimes advance 10 s per step (runs more than 1 s apart)",
                        "cold oracle = private copy of a typeshed-only base cache (thorough: sampled steps use a truly empty cache dir)",
                        "in-process runs (mypy.main.main) in pool workers; C10 checks independence from earlier builds"]
    ctx.floor_nontrivial = max(2, int(n_hist * 0.8))
    ctx.floor_evaluations = n_hist * 2
    m2 = 0
    with common.workdir("C02") as wd:
        env = common.base_env(VERIF_POOL_ROOT=wd)
        with Pool(env=env) as pool:
            only = os.environ.get("VERIF_ONLY")   # triage aid: "explore" or "core"
            streams = []
            if only == "appear":
                streams += [gen_appear(ctx)]
            elif only != "explore":
                streams += [gen(ctx, n_hist - n_hist // 3, steps, all_configs=not quick), gen_corpus(ctx, n_corpus), gen_appear(ctx)]
            if only not in ("core", "appear"):
                streams += [gen(ctx, n_hist // 3, steps, all_configs=False, explore=True)]
            if only:
                ctx.floor_nontrivial, ctx.floor_evaluations = 2, 2
            tasks = itertools.chain(*streams)
            for t, r in pool.imap(tasks, timeout=900):
                if not r.get("ok"):
                    ctx.inconc("runner:" + ("timeout" if r.get("timeout") else "died" if r.get("died") else str(r.get("exc"))[:60]))
                    continue
                for st in r["res"]["steps"]:
                    ops = t["_ops"][st["i"]] if st["i"] < len(t["_ops"]) else ["?"]
                    # ops since the previous run (skipped runs accumulate edits)
                    j = st["i"] - 1
                    while j in t["_skip"] and j > 0:
                        ops = t["_ops"][j] + ops
                        j -= 1
                    if st.get("warm_failed") or st.get("cold_failed"):
                        ctx.inconc("internal-failure (owner: C20)")
                        ctx.extra.setdefault("foreign_incidents", []).append(
                            {"owner": "C20", "case": t["_k"], "witness": st.get("warm_failed") or st.get("cold_failed")})
                        break
                    ctx.count()
                    m2 += st.get("m2_checked", 0)
                    reasons = sorted(set(st["stale"].values()))
                    ctx.cell("config:" + t["_cfg"])
                    for rs in reasons:
                        for op in ops:
                            ctx.cell(f"stale:{rs}|op:{op.split(':')[0]}")
                    if st["fresh"] and st["stale"]:
                        ctx.nontriv(tuple(ops), tuple(reasons), t["_cfg"], len(st["fresh"]) > 2)
                    if st.get("order_only"):
                        ctx.cell("order-only-differences (not judged)")
                    if st.get("m2_bad"):
                        # M2 is stricter than the property (latent staleness that this step's text does not show):
                        # reported, never a verdict (DESIGN C02; demoted after it fired on identical-content stubs)
                        ctx.cell("m2-latent-staleness-observations")
                        ctx.extra.setdefault("m2_mismatches", [])
                        if len(ctx.extra["m2_mismatches"]) < 20:
                            ctx.extra["m2_mismatches"].append({"history": t["_k"], "step": st["i"], "ops": ops, "modules": st["m2_bad"]})
                    if st["equal"]:
                        if st["i"] and st["stale"] and st["fresh"]:
                            ctx.sample({"history": t["_k"], "step": st["i"], "ops": ops, "config": t["_cfg"],
                                        "rechecked": st["stale"], "from_cache": st["fresh"][:6],
                                        "n_lines": len(st["warm"]["out"].splitlines())})
                        continue
                    key = classify(st)
                    if key not in ("only_once-note-placement", "while-blocked:warm-omits-nonblocking-diagnostics", "cycle-dependent-has-type"):
                        key = histgen.op_class(ops) + "|" + key
                    ctx.violation(key, f"warm run differs from cold run at step {st['i']} (ops {ops}, config {t['_cfg']})",
                                  {"task": t, "step": st["i"], "warm": st["warm"], "cold": st["cold"], "diffs": st.get("diffs"),
                                   "fresh": st["fresh"], "stale": st["stale"]}, case=f"{t['_k']}@{st['i']}:{t['_cfg']}")
                    break
    ctx.extra["m2_fresh_modules_checked"] = m2
