"""C14 - both parsers mean the same thing and report valid positions.

Differential monitor: every file set is checked by the real mypy twice (default parser / --native-parser, with
--show-column-numbers --show-error-end); diagnostics must be identical, a blocking syntax rejection must happen
in both or neither (wording and column of syntax errors are not compared), and every location must lie inside
its file."""

from __future__ import annotations

import ast
import os
import re
from typing import Any, Iterator

from vlib import common, corpus, diag, mutators
from vlib.pool import Pool
from checks.c20 import clean_flags

LAYOUTS = [
    "@decorator\nasync def f(x: int = 1, /, *a: int, k: str, **kw: object) -> None:\n    await g()\n    async with a as b, c as d:\n        pass\n    async for i in x:\n        yield i\n",
    "match command.split():\n    case [action]:\n        pass\n    case [action, obj] if obj:\n        pass\n    case Point(x=0, y=0) | {'k': v, **rest}:\n        pass\n    case [1, 2, *others] as whole:\n        pass\n    case _:\n        pass\n",
    "class A[T: int, *Ts, **P](Base[T], metaclass=M):\n    type Alias[K] = dict[K, T]\n    def m[U](self, x: U) -> U:\n        return x\n",
    "x = f'{a!r:>{width}} {b=} {\"nested\" + f\"{c}\"} {{literal}}'\ny = rf'\\d{n}'\nz = b'\\x00' b'abc'\n",
    "if (n := len(a)) > 10 and (m := n * 2):\n    print(n, m)\nwhile chunk := f.read():\n    pass\nz = [y := 1, y ** 2]\n",
    "first, *rest = 1, 2, 3\n*a, b = rest\nprint(*a, **{'sep': ''})\nt = *a, *rest\nd = {**{}, 'k': 1}\n",
    "total = 1 + \\\n    2 + \\\n    3\nlong = (1 +\n        2\n        + 3)\ns = 'a' \\\n    'b'\n",
    "def f():\n\tif True:\n\t\treturn 1\n\treturn 2\n",
    "x = 1\n\x0cdef after_formfeed() -> int:\n    return 'a'\n",
    "\u00e9t\u00e9: int = 'unicode'\n\u540d\u524d = \u00e9t\u00e9 + 1\nprint(\u540d\u524d.missing)\n",
    "x: int = 'crlf'\r\ny: str = 1\r\ndef f() -> None:\r\n    return 1\r\n",
    "\ufeffx: int = 'bom'\n",
    "x = 1\ny: int = 'no newline at eof'",
    "lambda: (yield)\nf = lambda x, /, y=1, *a, k, **kw: (x, y, a, k, kw)\ng = lambda: [i for i in range(3) if i for j in range(i)]\n",
    "try:\n    pass\nexcept* ValueError as e:\n    raise\nexcept* (TypeError, KeyError):\n    pass\nelse:\n    pass\nfinally:\n    pass\n",
    "with (open('a') as f, open('b') as g):\n    pass\nwith open('c') as h, \\\n     open('d') as i:\n    pass\n",
    "global_var = 1\ndef outer():\n    n = 0\n    def inner():\n        nonlocal n\n        global global_var\n        n += 1; global_var -= 1\n    return inner\n",
    "x = [\n    1,\n    2,\n]\ny = {\n    'a': (1,\n          2),\n}\nz: int = x[\n    0\n] + 'a'\n",
    "class C:\n    x: int\n    y: 'C'\n    def __init__(self) -> None: self.x = ''; self.y = 1\n    @property\n    def p(self) -> int: return ''\n    @p.setter\n    def p(self, v: str) -> None: ...\n",
    "def f(a, b: int = 1, *args: str, c, d: int = 2, **kwargs: bytes) -> 'undefined_name':\n    return a + b + undefined\n",
    "from typing import *\nfrom . import sibling\nfrom .. import parent\nfrom .pkg import (a,\n    b as c,\n)\nimport os.path as p, sys\n",
    "assert x, 'msg'\ndel a, b[0], c.d\nraise E from None\nx = yield\nawait y\nreturn 1\n",
    "x = 1 if a else 2 if b else 3\ny = not a and b or c\nz = a < b <= c != d is not e in f not in g\nw = ~-+x ** -y @ z // 2 % 3 << 1 >> 2 & 3 ^ 4 | 5\n",
    "print(0x_FF, 0o17, 0b1_0, 1_000.000_1e-1_0, 1j, .5, 5., 0xffffffffffffffffffff)\nx: int = 1e3\n",
    "s = '''multi\nline''' + \"\"\"also\nmulti\"\"\"\nx: int = s\nt = r'\\n' u'u' br'b'\n",
    "def gen():\n    x = yield from other()\n    return [(yield), (yield 1)]\nasync def agen():\n    return [i async for i in aiter() if await cond(i)]\n",
    "class E(Exception): ...\nclass K(int, metaclass=type, flag=True): pass\nclass Empty(): pass\n@dataclass(frozen=True)\nclass D:\n    a: int = field(default=1)\n",
    "a = b = c = 1\na += 1; b -= 1\nx: list[int] = []\nx[0]: int = 1\n(y): int = 2\nz.attr: str = ''\n",
    "for i, (a, b) in enumerate(pairs):\n    continue\nelse:\n    pass\nwhile x:\n    break\nelse:\n    pass\n",
    "def f(x: int) -> int:\n    '''doc'''\n    ...\n\n\n\ndef g(): return f('a')  # trailing comment\n# final comment\n",
    "type X = int\ntype Y[T] = list[T] | None\ntype = 1\nmatch = 2\ncase = 3\nprint(type, match, case)\n",
    "def f(*, a): pass\ndef g(a, /): pass\ndef h(a, /, b, *, c): pass\nf(1)\ng(a=1)\nh(1, 2, 3)\n",
    "x = (\n    # comment inside parens\n    1  # another\n    +\n    'a'\n)\n",
    "if True:\n    pass\nelif False:\n    x: int = ''\nelse:\n    y: str = 1\n",
    "def f():\n    return (\n        yield\n    )\nx = [*range(3), *'ab']\ny = {*x, 1}\nz = {k: v for k, v in zip(x, x)}\n",
]


# implicit string concatenation in every mix of plain / f / raw / bytes pieces, in contexts where the literal value shows
LAYOUTS += [
    "from typing import Final, Literal\nA: Final = ('a' f'b' 'c' \"d\")\nreveal_type(A)\nB: Literal['abcd'] = A\nC: Final = 'x' 'y' f'z' f'{1}' 'w'\nreveal_type(C)\n",
    "from typing import TypedDict\nclass TD(TypedDict):\n    key_one: int\nd: TD = {'key_' f'on' 'e': 1}\nd['ke' 'y_' f'one']\nd['key' f'_' 'tw' 'o']\n",
    "x = ('%s ' f'and ' '%d' ' %s') % ('a', 'b')\ny = ('{} ' f'{{}} ' '{}' '{}').format(1)\nreveal_type('p' 'q' 'r' 's')\nreveal_type(b'p' b'q' b'r')\nreveal_type(r'\\a' 'b' f'c' rf'\\d')\n",
    "from typing import Final\nNAME: Final = 'n'\nM: Final = ('usage: ' f'prog ' '[options] ' 'FILE')\nreveal_type(M)\nN = f'{NAME}' 'a' 'b' f'c' 'd'\nreveal_type(N)\n",
]
# a statically dead branch with an import (of a missing module) in every block position
_POSITIONS = [
    ("", "", ""), ("def f() -> None:\n", "    ", ""), ("class K:\n", "    ", ""), ("try:\n", "    ", "finally:\n    pass\n"), ("try:\n    pass\nexcept Exception:\n", "    ", ""),
    ("try:\n    pass\nexcept Exception:\n    pass\nelse:\n", "    ", ""), ("try:\n    pass\nfinally:\n", "    ", ""),
    ("with open('f') as fh:\n", "    ", ""), ("while int():\n", "    ", ""), ("for _i in []:\n", "    ", ""), ("for _i in []:\n    pass\nelse:\n", "    ", ""),
    ("if int():\n    pass\nelif int():\n", "    ", ""), ("if int():\n    pass\nelse:\n", "    ", ""),
    ("match int():\n    case 1:\n", "        ", ""), ("async def af() -> None:\n    async with af() as q:\n", "        ", ""),
    ("def g() -> None:\n    def inner() -> None:\n", "        ", ""), ("class K2:\n    def m(self) -> None:\n        try:\n            pass\n        finally:\n", "            ", ""),
]
_CONDS = ["sys.version_info < (3,)", "sys.platform == 'nonexistent'", "TYPE_CHECKING and not TYPE_CHECKING", "not TYPE_CHECKING",
          "sys.version_info >= (3, 99)"]
for _pi, (_pre, _ind, _suf) in enumerate(_POSITIONS):
    _body = "".join(f"{_ind}if {_c}:\n{_ind}    import missing_mod_{_pi}_{_ci}\n{_ind}    bad_{_ci}: int = ''\n{_ind}else:\n{_ind}    ok_{_ci}: int = 1\n"
                    for _ci, _c in enumerate(_CONDS))
    LAYOUTS.append("import sys\nfrom typing import TYPE_CHECKING\n" + _pre + _body + _suf)


def gen(ctx: common.Ctx, n_corpus: int, n_mut: int) -> Iterator[dict[str, Any]]:
    cases = corpus.load(["check-*.test", "parse*.test", "semanal-*.test", "pythoneval*.test"])
    import random
    rng = random.Random("C14-core-order")   # core workload is seed-independent (listed parser divergences are per case)
    rng.shuffle(cases)
    pyvers = ["3.9", "3.10", "3.11", "3.12", "3.13", "3.14"]
    k = 0
    sent = 0
    for c in cases:
        if sent >= n_corpus:
            break
        if corpus.uses_fixture_only_features(c) or c.cmd or corpus.has_config_files(c):
            continue
        files = c.all_files()
        if any(corpus.has_type_comments(t) for t in files.values()):
            continue
        flags = [f for f in clean_flags(c.flags) if f not in ("--no-native-parser",)]
        r = random.Random("C14-core-" + c.id)
        if "--python-version" not in " ".join(flags) and r.random() < 0.4:
            flags += ["--python-version", r.choice(pyvers)]
        sent += 1
        yield {"fn": "vlib.tasks.parsers:both", "args": {"files": files, "flags": flags, "targets": ["main.py"]},
               "_case": c.id, "_kind": "corpus"}
    for i, src in enumerate(LAYOUTS):
        for pv in (pyvers if ctx.tier == "thorough" else ["3.9", "3.12", "3.14"]):
            yield {"fn": "vlib.tasks.parsers:both", "args": {"files": {"main.py": src}, "flags": ["--python-version", pv], "targets": ["main.py"]},
                   "_case": f"layout{i}@{pv}", "_kind": "layout"}
    pool_src = [c.main for c in cases[:600] if not corpus.has_type_comments(c.main)] + LAYOUTS * 5
    for j in range(n_mut):
        r = random.Random(f"C14-core-mut-{j}")
        src = r.choice(pool_src)
        m = mutators.mutate(src, r, n=1, ops=["corrupt_token"] if r.random() < 0.7 else None)
        if m is None or corpus.has_type_comments(m[0]):
            continue
        yield {"fn": "vlib.tasks.parsers:both", "args": {"files": {"main.py": m[0]}, "flags": ["--python-version", r.choice(pyvers)], "targets": ["main.py"]},
               "_case": "mut:" + common.fingerprint(m[0])[:10], "_kind": "mutant:" + m[1][0]}
    # exploration slice (VERIF_SEED-dependent): generated typed programs and their perturbations
    from vlib import typedgen
    for j in range(max(10, n_mut // 12)):
        src, _ = typedgen.generate(("C14x", ctx.seed, j), n_funcs=3 + j % 3)
        r2 = common.rng_for("C14x", ctx.seed, j)
        if r2.random() < 0.6:
            m2 = typedgen.perturb(src, r2)
            if m2:
                src = m2[0]
        yield {"fn": "vlib.tasks.parsers:both", "args": {"files": {"main.py": src}, "flags": ["--python-version", r2.choice(pyvers[3:])], "targets": ["main.py"]},
               "_case": f"x:typedgen{j}", "_kind": "typedgen"}


def _char_at(text: str, line: int | None, col: int) -> str:
    lines = re.split(r"\r\n|\r|\n", text)
    if line is None or not (1 <= line <= len(lines)) or not (1 <= col <= len(lines[line - 1])):
        return ""
    return lines[line - 1][col - 1]


def norm_nonsyntax(out: str) -> list[str]:
    return [e["raw"] for e in diag.parse(out) if not e["raw"].rstrip().endswith("[syntax]")]


def _norm_msg(m: str) -> str:
    m = re.sub(r'"[^"]*"', '"X"', m)
    m = re.sub(r"'[^']*'", "'X'", m)
    return re.sub(r"\d+", "N", m)[:90]


def compare_levels(d_out: str, n_out: str, files: dict[str, str]) -> list[tuple[str, str]]:
    """[(mechanism key, detail)] for the differences between the two parsers' diagnostics.
    L0 = (file, line, severity, message); L1 = start column; L2 = end position."""
    pd = [e for e in diag.parse(d_out) if e["file"] is not None]
    pn = [e for e in diag.parse(n_out) if e["file"] is not None]
    l0 = lambda e: (e["file"] or "", e["line"] if e["line"] is not None else -1, e["sev"], e["msg"])
    if sorted(map(l0, pd)) != sorted(map(l0, pn)):
        from checks.c03 import _codes
        sd, sn = set(map(l0, pd)), set(map(l0, pn))
        od = [f"{x[0]}:{x[1]}: {x[2]}: {x[3]}" for x in sd - sn]
        on = [f"{x[0]}:{x[1]}: {x[2]}: {x[3]}" for x in sn - sd]
        return [(f"messages-differ:default-only={','.join(_codes(od))}:native-only={','.join(_codes(on))}", f"D:{od[:3]} N:{on[:3]}")]
    if list(map(l0, pd)) != list(map(l0, pn)):
        return [("order-differs", "")]
    out: list[tuple[str, str]] = []
    for a, b in zip(pd, pn):
        if (a["col"], a["eline"], a["ecol"]) == (b["col"], b["eline"], b["ecol"]):
            continue
        line = (re.split(r"\r\n|\r|\n", files.get(a["file"], "")) + [""] * (a["line"] or 1))[(a["line"] or 1) - 1]
        nonascii = not line.isascii()
        if a["col"] != b["col"]:
            if a["col"] is None or b["col"] is None:
                k = "column-differs:one-parser-reports-no-column"
            elif nonascii:
                k = "column-differs:non-ascii-line(byte-vs-character-offsets)"
            else:
                k = "column-differs:ascii-line"
        else:
            if (a["eline"], a["ecol"]) == (a["line"], a["col"]) or (b["eline"], b["ecol"]) == (b["line"], b["col"]):
                k = "end-differs:one-parser-has-end-equal-start"
            elif nonascii:
                k = "end-differs:non-ascii-line"
            elif (a["eline"] == b["eline"] and a["ecol"] and b["ecol"] and abs(a["ecol"] - b["ecol"]) == 1
                  and _char_at(files.get(a["file"], ""), a["eline"], max(a["ecol"], b["ecol"])) == ")"):
                # `x + (y)`: CPython's ast ends the expression at the parenthesis closing its last operand, the native
                # parser at the operand itself
                k = "end-differs:closing-paren-of-last-operand"
            else:
                k = "end-differs:other"
        out.append((k, f"D:{a['raw'][:150]} | N:{b['raw'][:150]}"))
    return out


def run(ctx: common.Ctx) -> None:
    quick = ctx.tier == "quick"
    n_corpus, n_mut = (2200, 1500) if quick else (5000, 5000)
    scale = float(os.environ.get("VERIF_SCALE", "1"))
    n_corpus, n_mut = int(n_corpus * scale), int(n_mut * scale)
    ctx.rule = ("corpus programs without type comments (check-*, parse*, semanal-*, pythoneval), 35 unusual-layout snippets x target "
                "versions, and single-token corruptions / structural mutants; non-trivial = file set with >=1 diagnostic or a "
                "syntax rejection in either parser; distinct by source hash + flags")
    ctx.assumptions += ["trusted base: ast_serialize (native parser front end), CPython ast", "syntax error wording/column not compared (property: only the fact of rejection)"]
    ctx.floor_nontrivial = int((n_corpus + n_mut) * 0.2)
    ctx.floor_evaluations = int((n_corpus + n_mut) * 0.5)
    with common.workdir("C14") as wd:
        env = common.base_env(VERIF_POOL_ROOT=wd)
        with Pool(env=env) as pool:
            for t, r in pool.imap(gen(ctx, n_corpus, n_mut), timeout=240):
                if not r.get("ok"):
                    ctx.inconc("runner:" + ("timeout" if r.get("timeout") else "died" if r.get("died") else str(r.get("exc"))[:60]))
                    continue
                res = r["res"]
                d, n = res["default"], res["native"]
                if d["failed"] or n["failed"]:
                    ctx.inconc("internal-failure (owner: C20)")
                    ctx.extra.setdefault("foreign_incidents", [])
                    if len(ctx.extra["foreign_incidents"]) < 30:
                        ctx.extra["foreign_incidents"].append({"owner": "C20", "case": t["_case"], "witness": d["failed"] or n["failed"]})
                    continue
                ctx.count()
                ctx.cell("kind:" + t["_kind"].split(":")[0])
                if d["out"].strip() or n["out"].strip():
                    ctx.nontriv(t["args"]["files"], t["args"]["flags"])
                for side, x in (("default", d), ("native", n)):
                    for b in x["bad_pos"]:
                        why = re.sub(r" ?\d+(\.\.\d+)?", "", b["why"]).replace(" ", "-")
                        if b["raw"].rstrip().endswith("[syntax]"):
                            # CPython's 1-based SyntaxError.offset is passed on as a 0-based column, so every syntax error
                            # is shown one column to the right; at the end of a line that is one past the newline position
                            why += ":syntax-error" + (f":past-newline-by-{b['excess']}" if b.get("excess") else "")
                        ctx.violation(f"position-invalid:{side}:{why}", f"{b['why']}: {b['raw']}", {"task": t, "parser": side, "out": x["out"]}, case=t["_case"])
                dsyn, nsyn = d["status"] == 2, n["status"] == 2
                if "you likely need to run mypy using Python" in d["out"] or (
                        dsyn and not nsyn and re.search(r"requires Python 3\.\d+ or newer", n["out"])):
                    # the default parser is CPython's own ast: newer syntax than the host interpreter is a
                    # documented limitation of the environment, not a disagreement between the parsers
                    ctx.inconc("default-parser-limited-by-host-python")
                    continue
                if dsyn != nsyn:
                    ctx.cell("rejected-by-one")
                    who = "default-only" if dsyn else "native-only"
                    msgs = [e["msg"] for e in diag.parse((d if dsyn else n)["out"]) if e["sev"] == "error"]
                    ctx.violation(f"blocking-rejection:{who}:{_norm_msg(msgs[0]) if msgs else '?'}", f"blocking error reported by {who}",
                                  {"task": t, "default": d["out"], "native": n["out"]}, case=t["_case"])
                    continue
                if dsyn and nsyn:
                    ctx.cell("rejected-by-both")
                    if {x[0] for x in d["syntax"]} != {x[0] for x in n["syntax"]}:
                        ctx.violation("blocking-rejection:different-file", "rejected files differ", {"task": t, "default": d["out"], "native": n["out"]}, case=t["_case"])
                    continue
                if d["status"] != n["status"]:
                    ctx.violation(f"status:{d['status']}-vs-{n['status']}", "exit status differs", {"task": t, "default": d["out"], "native": n["out"]}, case=t["_case"])
                    continue
                diffs = compare_levels(d["out"], n["out"], t["args"]["files"])
                seen_k = set()
                for k, detail in diffs:
                    if k in seen_k:
                        continue
                    seen_k.add(k)
                    ctx.violation(k, "diagnostics differ between the parsers: " + detail, {"task": t, "default": d["out"], "native": n["out"]}, case=t["_case"])
                if diffs:
                    pass
                elif d["out"].strip():
                    ctx.sample({"case": t["_case"], "kind": t["_kind"], "n_diags": len(d["out"].splitlines()), "first": d["out"].splitlines()[0][:140]})
