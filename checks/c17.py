"""C17 - configuration sources are equivalent; precedence is as documented.

(1) Equivalence: for every option of the live option table and every representable value, the real front end
    (`mypy.main.main`, or `process_options` where a build would leave the sandbox) is executed once per source
    (command line, mypy.ini, setup.cfg, pyproject.toml, [mypy-w] / [[tool.mypy.overrides]] sections, `# mypy:`
    comment) and spelling (no_, allow/disallow, show/hide, ini boolean words, TOML native vs string); recording
    wrappers capture `Options.snapshot()` after `process_options` and `State.options` after the inline configuration
    of the witness modules. Snapshots and witness diagnostics must coincide; conflicting pairs of sources must
    resolve as documented.
(2) Precedence: a contract on the real `Options.clone_for_module` compares its result with a transcription of
    docs/source/config_file.rst (`vlib.c17_model`) for all ordered section sets of size <= 3 over the pattern
    alphabet x layer variants ([mypy] / command line) x module names to depth 3; a sample (thorough: all) is also
    run end to end (config file + inline comments + flags -> State.options and diagnostics of 39 modules).
"""

from __future__ import annotations

import itertools
import json
import os
from typing import Any, Iterator

from vlib import c17_model as model
from vlib import c17_plan as plan
from vlib import common
from vlib.pool import Pool

T = "vlib.tasks.c17_tasks:"
PATTERNS = ["a", "a.b", "a.*", "a.b.*", "*.b", "a.*.c", "*"]
PATTERNS_THOROUGH_EXTRA = ["a.*.c.*", "*.b.*", "b.*", "a.b.c"]


def module_names(depth: int = 3, alphabet: str = "abc") -> list[str]:
    out: list[str] = []
    for n in range(1, depth + 1):
        out += [".".join(t) for t in itertools.product(alphabet, repeat=n)]
    return out


# ------------------------------------------------------------------------------------------ special groups
def special_groups(tab: dict[str, Any], thorough: bool = False) -> list[dict[str, Any]]:
    ini, toml = plan.ini_file, plan.toml_file
    groups: list[dict[str, Any]] = []
    base = {"id": "baseline", "cls": "base", "vid": "-", "src": "none", "spelling": "-", "config": ini("mypy.ini", [])}

    def run(vid: str, src: str, spelling: str, expect: dict[str, Any], cls: str = "global", **kw: Any) -> dict[str, Any]:
        return {"id": f"{vid}|{src}|{spelling}", "cls": cls, "vid": vid, "src": src, "spelling": spelling,
                "expect_global": expect, "watch": ["w", "wlib"], "targets": [plan.W], **kw}

    # --strict / strict = True
    strict = {d: v for d, v in tab["strict"]}
    sflags = ["--strict"]
    kw = {"eff_flags": sflags, "cache_tag": "strict"}
    rs = [dict(base, watch=["w", "wlib"], targets=[plan.W]),
          run("on", "cli", "--strict", strict, argv=sflags, config=ini("mypy.ini", []), **kw),
          run("on", "ini", "plain", strict, config=ini("mypy.ini", [("strict", "True")]), **kw),
          run("on", "ini", "plain~yes", strict, config=ini("mypy.ini", [("strict", "yes")]), **kw),
          run("on", "cfg", "plain", strict, config=ini("setup.cfg", [("strict", "True")]), **kw),
          run("on", "toml", "plain", strict, config=toml([("strict", "true")]), **kw),
          run("on", "toml", "plain~str", strict, config=toml([("strict", '"True"')]), **kw)]
    some = [d for d, v in tab["strict"] if v is True and d.startswith("disallow_untyped_defs")] or [tab["strict"][0][0]]
    d0 = some[0]
    inv = "--allow-untyped-defs" if d0 == "disallow_untyped_defs" else None
    ex = dict(strict)
    rs.append(dict(run("c1", "cli-strict>ini-flag", "-", ex, cls="conflict", argv=sflags,
                       config=ini("mypy.ini", [(d0, "False")]), **kw), id="conflict|cli-strict>ini-flag|-"))
    if inv:
        ex2 = dict(strict)
        ex2[d0] = False
        rs.append(dict(run("c2", "cli-flag>ini-strict", "-", ex2, cls="conflict", argv=[inv],
                           config=ini("mypy.ini", [("strict", "True")]), eff_flags=sflags + [inv], cache_tag="strict2"),
                       id="conflict|cli-flag>ini-strict|-"))
        rs.append(dict(run("c3", "cli-flag>toml-strict", "-", ex2, cls="conflict", argv=[inv],
                           config=toml([("strict", "true")]), eff_flags=sflags + [inv], cache_tag="strict2"),
                       id="conflict|cli-flag>toml-strict|-"))
    groups.append({"dest": "strict", "kind": "special", "runs": rs, "build": True, "notes": [], "per_module": False,
                   "config_ok": True, "default": False, "check_key": None})
    # reports
    for rep in ("linecount", "any-exprs"):
        if rep not in tab["reporters"]:
            continue
        key = rep.replace("-", "_") + "_report"
        flag = f"--{rep}-report"
        exp = {"report_dirs": {rep: "vrep"}}
        rs = [dict(base, watch=["w", "wlib"], targets=[plan.W]),
              run("s", "cli", flag, exp, argv=[flag, "vrep"], config=ini("mypy.ini", [])),
              run("s", "cli", flag + "=", exp, argv=[f"{flag}=vrep"], config=ini("mypy.ini", []), no_build=True),
              run("s", "ini", "plain", exp, config=ini("mypy.ini", [(key, "vrep")])),
              run("s", "cfg", "plain", exp, config=ini("setup.cfg", [(key, "vrep")]), no_build=True),
              run("s", "toml", "plain", exp, config=toml([(key, '"vrep"')]), no_build=not thorough),
              dict(run("c1", "cli>ini", "-", exp, cls="conflict", argv=[flag, "vrep"], config=ini("mypy.ini", [(key, "vother")]),
                       no_build=True), id="conflict|cli>ini|-"),
              dict(run("c2", "cli>toml", "-", exp, cls="conflict", argv=[flag, "vrep"], config=toml([(key, '"vother"')]),
                       no_build=True), id="conflict|cli>toml|-")]
        groups.append({"dest": key, "kind": "special", "runs": rs, "build": True, "notes": [], "per_module": False,
                       "config_ok": True, "default": None, "check_key": None})
    # --no-site-packages / no_site_packages = True: the effect is python_executable = None
    exp = {"python_executable": None}
    rs = [dict(base, watch=["w", "wlib"], targets=[plan.W]),
          run("on", "cli", "--no-site-packages", exp, argv=["--no-site-packages"], config=ini("mypy.ini", [])),
          run("on", "ini", "plain", exp, config=ini("mypy.ini", [("no_site_packages", "True")])),
          run("on", "cfg", "plain", exp, config=ini("setup.cfg", [("no_site_packages", "True")])),
          run("on", "toml", "plain", exp, config=toml([("no_site_packages", "true")]))]
    groups.append({"dest": "no_site_packages", "kind": "special", "runs": rs, "build": True, "notes": [], "per_module": False,
                   "config_ok": True, "default": False, "check_key": None})
    # what to check: files / modules / packages
    def tg(vid: str, src: str, sp: str, targets_expected: list[list[str]], **kw: Any) -> dict[str, Any]:
        r = run(vid, src, sp, {}, **kw)
        r["expect_targets"] = targets_expected
        return r
    f_exp = [["w.py", "w"], ["wlib.py", "wlib"]]
    rs = [dict(base, watch=["w", "wlib"], targets=[plan.W]),
          tg("files", "cli", "positional", f_exp, argv=[], targets=["w.py", "wlib.py"], config=ini("mypy.ini", [])),
          tg("files", "ini", "plain", f_exp, targets=[], config=ini("mypy.ini", [("files", "w.py, wlib.py")])),
          tg("files", "ini", "plain~nospace", f_exp, targets=[], config=ini("mypy.ini", [("files", "w.py,wlib.py")])),
          tg("files", "cfg", "plain", f_exp, targets=[], config=ini("setup.cfg", [("files", "w.py, wlib.py")])),
          tg("files", "toml", "plain", f_exp, targets=[], config=toml([("files", '["w.py", "wlib.py"]')])),
          tg("files", "toml", "plain~str", f_exp, targets=[], config=toml([("files", '"w.py, wlib.py"')])),
          tg("modules", "cli", "-m", [["None", "w"], ["None", "wlib"]], argv=["-m", "w", "-m", "wlib"], targets=[], config=ini("mypy.ini", [])),
          tg("modules", "ini", "plain", [["None", "w"], ["None", "wlib"]], targets=[], config=ini("mypy.ini", [("modules", "w, wlib")])),
          tg("modules", "toml", "plain", [["None", "w"], ["None", "wlib"]], targets=[], config=toml([("modules", '["w", "wlib"]')])),
          tg("modules", "toml", "plain~str", [["None", "w"], ["None", "wlib"]], targets=[], config=toml([("modules", '"w, wlib"')])),
          tg("packages", "cli", "-p", [["wpkg/__init__.py", "wpkg"], ["wpkg/sub.py", "wpkg.sub"]], argv=["-p", "wpkg"], targets=[], config=ini("mypy.ini", [])),
          tg("packages", "ini", "plain", [["wpkg/__init__.py", "wpkg"], ["wpkg/sub.py", "wpkg.sub"]], targets=[], config=ini("mypy.ini", [("packages", "wpkg")])),
          tg("packages", "toml", "plain", [["wpkg/__init__.py", "wpkg"], ["wpkg/sub.py", "wpkg.sub"]], targets=[], config=toml([("packages", '["wpkg"]')])),
          dict(tg("c1", "cli-files>ini-files", "-", [["wlib.py", "wlib"]], cls="conflict", targets=["wlib.py"],
                  config=ini("mypy.ini", [("files", "w.py")])), id="conflict|cli-files>ini-files|-"),
          dict(tg("c2", "cli-module>toml-files", "-", [["None", "wlib"]], cls="conflict", argv=["-m", "wlib"], targets=[],
                  config=toml([("files", '["w.py"]')])), id="conflict|cli-module>toml-files|-")]
    for r in rs:
        r["watch"] = ["w", "wlib", "wpkg", "wpkg.sub"]
    groups.append({"dest": "files/modules/packages", "kind": "special", "runs": rs, "build": True, "notes": [], "per_module": False,
                   "config_ok": True, "default": None, "check_key": None})
    return groups


# ------------------------------------------------------------------------------------------ equivalence oracle
_HARNESS_SET: set[str] = set()


def _strip(d: Any, extra: set[str] = frozenset()) -> Any:  # type: ignore[assignment]
    if not isinstance(d, dict):
        return d
    return {k: _nz(v) for k, v in d.items() if k not in plan.BOOKKEEPING and k not in extra and k not in _HARNESS_SET}


def _nz(v: Any) -> Any:
    """Empty items of a list value (only a trailing separator produces them, e.g. `mypy_path = a,` in ini) are not compared:
    an empty search-path entry is the current directory, which is searched anyway - no diagnostic difference can be shown."""
    if isinstance(v, list) and "" in v:
        return [x for x in v if x != ""]
    return v


def _val(diff: Any, base: Any, key: str) -> Any:
    if isinstance(diff, dict) and key in diff:
        return _nz(diff[key])
    if isinstance(base, dict):
        return _nz(base.get(key, "<absent>"))
    return "<no-snapshot>"


def _rejected(err: str) -> str | None:
    for pat, name in (("Unrecognized option", "unrecognized"), ("Don't know what type", "untyped"),
                      ("Can not invert", "cannot-invert"), ("Not a boolean", "not-a-boolean"),
                      ("not supported in inline", "inline-unsupported"), ("should only specify per-module", "not-per-module"),
                      ("invalid choice", "invalid-choice"), ("Unrecognized report", "unrecognized-report")):
        if pat in err:
            return name
    return None


VOLATILE_OUTPUT = {"dump_type_stats", "dump_inference_stats", "dump_build_stats", "verbosity"}  # print timings / memory / counters
_MSG = __import__("re").compile(r"^(?:[^\s:][^:]*:\d+(?::\d+)*: (?:error|note|warning): |Found \d+ error|Success: )")


def _diag(o: dict[str, Any], dest: str) -> Any:
    out = o.get("out") or ""
    if dest in VOLATILE_OUTPUT:
        out = "\n".join(ln for ln in out.splitlines() if _MSG.match(ln))
    return [o.get("status"), out]


def _family(p: dict[str, Any]) -> str:
    """Source family for mechanism keys: the parser path the value travels, plus a non-plain spelling kind."""
    src, sp = p["src"], p["spelling"]
    fam = {"ini": "ini-format", "cfg": "ini-format", "sec-ini": "ini-format-section", "toml": "toml", "sec-toml": "toml-overrides",
           "cli": "cli", "inline": "inline"}.get(src, src)
    if src in ("toml", "sec-toml") and "~" in sp:
        fam += "-string"
    kind = sp.split("~")[0].split("/")[0]
    if src == "cli":
        return f"cli:{sp}"
    if kind not in ("plain", "-"):
        fam += ":" + kind
    return fam


def _spell_kind(sp: str) -> str:
    return sp.split("~")[0].split("/")[0] + ("~alt" if "~" in sp else "")


_PER_KEY: dict[str, int] = {}
MAX_WITNESSES_PER_KEY = 3


def report(ctx: common.Ctx, key: str, what: str, wit: dict[str, Any]) -> None:
    """At most a few written-out witnesses per mechanism key; the rest is counted."""
    _PER_KEY[key] = _PER_KEY.get(key, 0) + 1
    ctx.extra.setdefault("violations_per_key", {})[key] = _PER_KEY[key]
    if _PER_KEY[key] <= MAX_WITNESSES_PER_KEY:
        ctx.violation(key, what, wit)


def judge_group(ctx: common.Ctx, g: dict[str, Any], res: dict[str, Any]) -> None:
    dest = g["dest"]
    # the harness points builds at a private cache through MYPY_CACHE_DIR (not for the cache_dir option itself)
    _HARNESS_SET.clear()
    if dest != "cache_dir":
        _HARNESS_SET.add("cache_dir")
    plans = {r["id"]: r for r in g["runs"]}
    obs = {o["id"]: o for o in res["runs"]}
    base = obs.get("baseline")
    if base is None or base.get("global") is None:
        ctx.inconc("equiv:no-baseline")
        return
    bg, bm = base["global"], base.get("mods") or {}
    if g["build"] and not all(m in bm for m in ("w", "wlib")):
        ctx.inconc("equiv:baseline-hook-not-reached")
        return
    diag_sensitive = False

    def witness(*ids: str) -> dict[str, Any]:
        return {"option": dest, "build": g["build"], "witness_files": "vlib.c17_plan.WITNESS",
                "group": {k: g.get(k) for k in ("dest", "kind", "build", "per_module", "config_ok", "default", "check_key", "documented")},
                "runs": [{"plan": {k: v for k, v in plans[i].items()}, "observed": obs.get(i)} for i in ids],
                "baseline_value": {k: bg.get(k) for k in ([g["check_key"]] if g.get("check_key") else [])}}

    usable: dict[str, dict[str, Any]] = {}
    bads: dict[str, list[tuple[str, str, Any, Any]]] = {}
    for rid, p in plans.items():
        if rid == "baseline":
            continue
        o = obs.get(rid)
        if o is None or o.get("hook_error") or o.get("global") is None:
            ctx.inconc(f"equiv:run-not-observed:{dest}:{p['src']}")
            continue
        if o.get("crash"):
            ctx.inconc("equiv:internal-failure (owner: C20)")
            ctx.extra.setdefault("foreign_incidents", []).append({"owner": "C20", "case": f"{dest}|{rid}", "witness": o["crash"]})
            continue
        usable[rid] = o
        # ---- (a) the value lands where this source says it should
        exp_g: dict[str, Any] = {}
        exp_m: dict[str, dict[str, Any]] = {}
        ck = g.get("check_key")
        if p["cls"] == "global":
            exp_g = dict(p["expect_global"]) if "expect_global" in p else {ck: p["value"]}
            if ck and ck not in plan.HARNESS_MUTATED:
                exp_m = {"w": {ck: p["value"]}, "wlib": {ck: p["value"]}}
        elif p["cls"] == "module":
            exp_g = {ck: g["default"]}
            exp_m = {"w": {ck: p["value"]}, "wlib": {ck: g["default"]}}
        elif p["cls"] == "conflict":
            e = p.get("expect") or {}
            if "expect_global" in p:
                exp_g = dict(p["expect_global"])
            else:
                exp_g = {ck: e["global"]}
                if ck not in plan.HARNESS_MUTATED:
                    exp_m = {"w": {ck: e["w"]}, "wlib": {ck: e["wlib"]}}
        bad: list[tuple[str, str, Any, Any]] = []
        for key, want in exp_g.items():
            got = _val(o["global"], bg, key)
            if got != want and not _merge_ok(p, got, want):
                bad.append(("global", key, got, want))
        for mod, kv in exp_m.items():
            if mod not in (o.get("mods") or {}):
                if o.get("status") in (0, 1) and g["build"] and not p.get("no_build") and mod == "w":
                    ctx.inconc(f"equiv:module-hook-not-reached:{dest}")
                continue
            for key, want in kv.items():
                got = _val(o["mods"][mod], bm.get(mod), key)
                if got != want and not _merge_ok(p, got, want):
                    bad.append((mod, key, got, want))
        if "expect_targets" in p:
            got_t = o.get("targets")
            if got_t != sorted(p["expect_targets"]):
                bad.append(("targets", "targets", got_t, sorted(p["expect_targets"])))
        bads[rid] = bad
    # a transformation that every source of a (value, class) applies identically (path normalisation, a derived option
    # recomputed from another one) is not a difference between sources
    uniform: set[str] = set()
    by_part: dict[tuple[str, str], list[str]] = {}
    for rid in usable:
        if plans[rid]["cls"] in ("global", "module"):
            by_part.setdefault((plans[rid]["vid"], plans[rid]["cls"]), []).append(rid)
    for (vid, cls), ids in by_part.items():
        sigs = {json.dumps([(w, k, got) for w, k, got, _ in bads[i]], sort_keys=True, default=str) for i in ids}
        if len(sigs) == 1 and bads[ids[0]] and len({plans[i]["src"] for i in ids}) >= 2:
            uniform.update(ids)
            where, key, got, want = bads[ids[0]][0]
            ctx.cell("value-transformed-identically-by-all-sources")
            ctx.extra.setdefault("uniform_transformations", {})[f"{dest}={vid} ({cls})"] = {"asked": want, "observed": got,
                                                                                             "sources": sorted({plans[i]["src"] for i in ids})}
            if g.get("documented") and cls == "global" and got == g.get("default") and want != g.get("default") and where == "global":
                report(ctx, f"equiv:documented-setting-has-no-effect:{dest}",
                       f"{dest} is a documented config key but setting it to {want!r} changes nothing in any source "
                       f"({sorted({plans[i]['src'] for i in ids})})", witness("baseline", *ids[:3]))
    for rid in list(usable):
        p, o, bad = plans[rid], usable[rid], bads[rid]
        src, sk, cls = p["src"], _spell_kind(p["spelling"]), p["cls"]
        ctx.count()
        ctx.cell("runs:full-build" if o.get("built") else "runs:process_options+clone_for_module")
        ctx.cell(f"conflict:{src}" if cls == "conflict" else f"equiv:{src}:{sk}")
        if bad and rid not in uniform:
            where, key, got, want = bad[0]
            rej = _rejected(o.get("err") or "") or _rejected(o.get("out") or "")
            if cls == "conflict":
                loser = "other-value"
                if isinstance(p.get("expect"), dict) and "lo" in p["expect"] and got == p["expect"]["lo"]:
                    loser = "lower-precedence-source-won"
                elif got == g.get("default"):
                    loser = "neither (default)"
                vkey = f"conflict:{src}:{dest}:{where if where in ('global', 'targets') else 'module'}:{loser}"
                what = (f"{dest}: sources disagree ({src}); documented precedence gives {want!r} for {where}, "
                        f"observed {got!r}")
            else:
                if rej:
                    how = "rejected-" + rej
                elif isinstance(want, bool) and got == (not want):
                    how = "inverted"
                elif isinstance(want, list) and isinstance(got, list) and got and all(isinstance(x, str) and len(x) == 1 for x in got) \
                        and any(len(x) > 1 for x in want):
                    how = "split-into-characters"
                elif cls == "module" and where in ("global", "wlib"):
                    how = "leaked"
                else:
                    how = "lost"
                fam = _family(p)
                if "~" in p["spelling"] and how != "split-into-characters":
                    plain_failed = any(bads.get(i) and plans[i]["vid"] == p["vid"] and _family(plans[i]) == fam and "~" not in plans[i]["spelling"]
                                       for i in plans if i != "baseline")
                    first_alt = min(i for i in plans if i != "baseline" and plans[i]["vid"] == p["vid"] and _family(plans[i]) == fam
                                    and "~" in plans[i]["spelling"] and bads.get(i))
                    has_plain = any(plans[i]["vid"] == p["vid"] and _family(plans[i]) == fam and "~" not in plans[i]["spelling"]
                                    for i in plans if i != "baseline")
                    if has_plain and not plain_failed:
                        fam += "~" + p["spelling"].split("~", 1)[1]
                    elif not has_plain and rid != first_alt and bads[first_alt][0][2] != bad[0][2]:
                        fam += "~" + p["spelling"].split("~", 1)[1]
                vkey = f"equiv:value-{how}:{dest}:{fam}"
                what = f"{dest} supplied via {src} ({p['spelling']}): expected {key}={want!r} in {where} options, observed {got!r}"
            report(ctx, vkey, what, witness("baseline", rid))
            usable.pop(rid, None)
            continue
        changed = bool(_strip(o["global"])) or any(_strip(v) for v in (o.get("mods") or {}).values()) or "expect_targets" in p
        if changed and cls == "conflict":
            ctx.nontriv("conflict", dest, src, p["vid"])
        elif changed:
            ctx.nontriv("equiv", dest, p["vid"], src, sk)
        if o.get("built") and base.get("built") and _diag(o, dest) != _diag(base, dest):
            diag_sensitive = True
    # ---- (b) sources agree with each other (snapshots and witness diagnostics)
    parts: dict[tuple[str, str], list[str]] = {}
    for rid, o in usable.items():
        p = plans[rid]
        if p["cls"] in ("global", "module"):
            parts.setdefault((p["vid"], p["cls"]), []).append(rid)
    for (vid, cls), ids in sorted(parts.items()):
        ref = ids[0]
        for rid in ids[1:]:
            ctx.count()
            a, b = usable[ref], usable[rid]
            pa, pb = plans[ref], plans[rid]
            pair = f"{pa['src']}-vs-{pb['src']}:{_spell_kind(pb['spelling'])}"
            ga, gb = _strip(a["global"]), _strip(b["global"])
            if ga != gb:
                keys = sorted(k for k in set(ga) | set(gb) if ga.get(k, "<same-as-baseline>") != gb.get(k, "<same-as-baseline>"))
                report(ctx, f"equiv:snapshot-differs:{dest}:{pair}:{','.join(keys[:3])}",
                              f"{dest}={vid}: Options after process_options differ between {pa['src']} and {pb['src']} in {keys}",
                              witness("baseline", ref, rid))
                continue
            ma = {m: _strip(s, plan.HARNESS_MUTATED) for m, s in (a.get("mods") or {}).items()}
            mb = {m: _strip(s, plan.HARNESS_MUTATED) for m, s in (b.get("mods") or {}).items()}
            if not (a.get("built") and b.get("built")):
                # without a build only the witness modules named in the plan are cloned, and the error-code sets are not
                # computed (Options.process_error_codes is called by build.build)
                ma = {m: _strip(v, plan.BUILD_DERIVED) for m, v in ma.items()}
                mb = {m: _strip(v, plan.BUILD_DERIVED) for m, v in mb.items()}
                common_mods = set(ma) & set(mb)
                ma = {m: v for m, v in ma.items() if m in common_mods}
                mb = {m: v for m, v in mb.items() if m in common_mods}
            if ma != mb:
                keys = sorted({f"{m}.{k}" for m in set(ma) | set(mb) for k in set(ma.get(m) or {}) | set(mb.get(m) or {})
                               if (ma.get(m) or {}).get(k, "<same>") != (mb.get(m) or {}).get(k, "<same>")} or {"module-set"})
                report(ctx, f"equiv:module-options-differ:{dest}:{pair}:{','.join(k.split('.', 1)[-1] for k in keys[:3])}",
                              f"{dest}={vid}: per-module Options (after inline configuration) differ between {pa['src']} and "
                              f"{pb['src']} in {keys}", witness("baseline", ref, rid))
                continue
            if a.get("built") and b.get("built") and _diag(a, dest) != _diag(b, dest):
                report(ctx, f"equiv:diagnostics-differ:{dest}:{pair}",
                              f"{dest}={vid}: witness diagnostics differ between {pa['src']} ({pa['spelling']}) and {pb['src']} "
                              f"({pb['spelling']})", witness("baseline", ref, rid))
                continue
            ctx.cell(f"agree:{pa['src']}-vs-{pb['src']}")
            if _strip(a["global"]) or any(_strip(v) for v in (a.get("mods") or {}).values()):
                ctx.nontriv("pair", dest, vid, pa["src"], pb["src"], _spell_kind(pb["spelling"]))
                if sum(1 for x in ctx.samples if x.get("kind") == "equivalence") < 4 and a.get("built") and b.get("built") \
                        and _diag(a, dest) != _diag(base, dest) and not any(x.get("option") == dest for x in ctx.samples):
                    ctx.sample({"kind": "equivalence", "option": dest, "value": vid,
                                "A": {"source": pa["src"], "argv": pa.get("argv"), "config": pa.get("config"), "line1": pa.get("line1")},
                                "B": {"source": pb["src"], "argv": pb.get("argv"), "config": pb.get("config"), "line1": pb.get("line1")},
                                "options_changed_vs_baseline": _strip(a["global"]) or {m: _strip(v) for m, v in a["mods"].items() if _strip(v)},
                                "diagnostics_equal": True,
                                "witness_lines_changed_vs_baseline": len(set((a.get("out") or "").splitlines()) ^ set((base.get("out") or "").splitlines()))},
                               force=True)
    # ---- (c) a per-module source gives module w the options a global source gives it
    for vid in sorted({v for v, _ in parts}):
        gi, mi = parts.get((vid, "global")), parts.get((vid, "module"))
        if not gi or not mi or not g["build"]:
            continue
        a, b = usable[gi[0]], usable[mi[0]]
        if "w" not in (a.get("mods") or {}) or "w" not in (b.get("mods") or {}):
            continue
        ctx.count()
        cross = plan.CROSS_CLASS_ONLY | plan.HARNESS_MUTATED
        if not (a.get("built") and b.get("built")):
            cross = cross | plan.BUILD_DERIVED
        wa, wb = _strip(a["mods"]["w"], cross), _strip(b["mods"]["w"], cross)
        if wa != wb:
            keys = sorted(k for k in set(wa) | set(wb) if wa.get(k, "<same>") != wb.get(k, "<same>"))
            report(ctx, f"equiv:global-vs-per-module:{dest}:{plans[gi[0]]['src']}-vs-{plans[mi[0]]['src']}:{','.join(keys[:3])}",
                          f"{dest}={vid}: module w gets different Options from a global source and from a per-module source: {keys}",
                          witness("baseline", gi[0], mi[0]))
        else:
            ctx.cell("agree:global-vs-per-module")
            if wa:
                ctx.nontriv("cross", dest, vid)
    if diag_sensitive:
        ctx.cell("options-with-visible-effect-on-witness-diagnostics")
    ctx.cell("option-groups-judged")
    for n in g["notes"]:
        ctx.extra.setdefault("not_judged", {})[n] = 1


def _merge_ok(p: dict[str, Any], got: Any, want: Any) -> bool:
    """List-valued command-line flags accumulate on top of the [mypy] value (argparse append); that is not a conflict the
    documentation orders, so a merged list that keeps the higher-precedence value is accepted."""
    return bool(p.get("merge_ok")) and isinstance(got, list) and isinstance(want, list) and all(x in got for x in want)


# ------------------------------------------------------------------------------------------ task streams
def equiv_tasks(ctx: common.Ctx, tab: dict[str, Any], scale: float) -> Iterator[dict[str, Any]]:
    thorough = ctx.tier == "thorough"
    entries = [e for _, e in sorted(tab["entries"].items())]
    groups = special_groups(tab, thorough)
    # quick tier: complete builds under non-default *global* options (one cold typeshed build each) for a seeded sample
    cold = sorted(e["dest"] for e in entries if e.get("affects_cache") or e["dest"] in plan.COLD_WHEN_GLOBAL)
    sample = set(common.rng_for("C17", "full-build-sample").sample(cold, min(len(cold), 10))) | {"disallow_untyped_defs", "follow_imports"}
    full = sample | {e["dest"] for e in entries if e["dest"] not in cold}
    ctx.extra["quick_tier_full_build_sample"] = {"cold_build_options_total": len(cold), "sampled": sorted(sample)} if not thorough else "all"
    for e in entries:
        if e["dest"] in ("config_file",) or e.get("special") and e["dest"] not in ("python_version", "python_executable"):
            d = e["dest"]
            if d in ("strict", "no_executable", "modules", "packages") or d.replace("-", "_") in {g["dest"] for g in groups}:
                continue  # judged by a hand-written group above
            why = ("report needing lxml or XSLT inputs; linecount/any-exprs reports are judged" if d.endswith("_report")
                   else "command-line only (special-opts), no config-file counterpart")
            ctx.extra.setdefault("not_judged", {})[f"{d}: {why}"] = 1
            continue
        if not e.get("has_attr") and not e.get("documented") and e["dest"] not in ("python_version", "python_executable"):
            ctx.extra.setdefault("not_judged", {})[f"{e['dest']}: not an Options attribute"] = 1
            continue
        groups.append(plan.plan_group(e, tab, common.rng_for("C17", "plan", e["dest"]), thorough, thorough or e["dest"] in full))
    rng = common.rng_for("C17", "order")
    rng.shuffle(groups)
    # heavy groups first (cache-affecting options trigger one cold typeshed build per non-default value)
    groups.sort(key=lambda g: -len(g["runs"]))
    if scale < 1:
        groups = groups[: max(3, int(len(groups) * scale))]
    for g in groups:
        yield {"fn": T + "equiv_group", "args": {"runs": g["runs"], "files": plan.WITNESS, "build": g["build"]},
               "_kind": "equiv", "_group": g, "_timeout": 900}


def prec_cases(patterns: list[str], max_size: int, fmts: list[str]) -> list[dict[str, Any]]:
    cases = []
    for size in range(1, max_size + 1):
        for secs in itertools.permutations(patterns, size):
            for variant in range(4):
                for fmt in fmts:
                    cases.append({"sections": list(secs), "variant": variant, "fmt": fmt})
    return cases


def run(ctx: common.Ctx) -> None:
    _run_main(ctx)
    if not os.environ.get("VERIF_C17_ONLY"):
        compose_stream(ctx, int((120 if ctx.tier == "quick" else 1000) * float(os.environ.get("VERIF_SCALE", "1"))) or 6)


def _run_main(ctx: common.Ctx) -> None:
    _PER_KEY.clear()
    quick = ctx.tier == "quick"
    scale = float(os.environ.get("VERIF_SCALE", "1"))
    names = module_names()
    ctx.rule = (
        "equivalence: option (live argparse/Options/config tables) x value x source x spelling; one evaluation = one source checked "
        "against the value it must produce, or one pair of sources compared (snapshot after process_options, State.options of the "
        "witness modules after inline configuration, witness diagnostics). Non-trivial = the (option, value, source[-pair]) changes the "
        "snapshot relative to the no-option baseline (i.e. non-default value that is observable), distinct by (option, value, source, "
        "spelling kind). precedence: (ordered section set, layer variant, format) x module name; non-trivial = >=2 sections match the "
        "module (their values always differ), distinct by (sections, variant, format, module, observation point).")
    ctx.assumptions += [
        "reference for precedence = vlib/c17_model.py, a transcription of docs/source/config_file.rst (pattern matching: stars stand for "
        "zero or more components; precedence list under config-precedence); where the text is ambiguous (class of a lone '*') every reading is accepted",
        "list-valued command-line flags accumulate on top of [mypy] (argparse append): accepted when the command-line value is kept",
        "snapshot keys never compared (bookkeeping about the source, not the meaning): " + ", ".join(sorted(plan.BOOKKEEPING)),
        "ignore_missing_imports_per_module legitimately differs between global and per-module sources (documented); compared only within a class",
        "options whose build would leave the sandbox regime are compared on process_options snapshots only: " + ", ".join(sorted(plan.NO_BUILD)),
        "typeshed cache seeded per effective global flag set (validity is mypy's own option check); user modules are always re-checked "
        "(unique content + logical mtimes)",
        "trusted base: CPython argparse/configparser/tomllib",
    ]
    if quick:
        pats, max_size, fmts = PATTERNS, 3, ["ini"]
        n_e2e = int(160 * scale)
    else:
        pats, max_size, fmts = PATTERNS + PATTERNS_THOROUGH_EXTRA, 3, ["ini", "toml"]
        n_e2e = int(5000 * scale)
    cases = prec_cases(pats, max_size, fmts)
    if not quick:
        # size-4 sets over the base alphabet, ini only
        cases += [c for c in prec_cases(PATTERNS, 4, ["ini"]) if len(c["sections"]) == 4]
        # one section header naming two patterns (ini: [mypy-p,q]; toml: module = [p, q]) next to an ordinary section
        for p1, p2, p3 in itertools.permutations(PATTERNS, 3):
            for variant in (0, 3):
                for fmt in fmts:
                    cases.append({"sections": [f"{p1},{p2}", p3], "variant": variant, "fmt": fmt})
                    cases.append({"sections": [p3, f"{p1},{p2}"], "variant": variant, "fmt": fmt})
    total_cases = len(cases)
    rng = common.rng_for("C17", "prec")
    if scale < 1:
        rng.shuffle(cases)
        cases = cases[: max(8, int(len(cases) * scale))]
    # only the precedence space is finite and enumerated completely (when VERIF_SCALE >= 1); option values are representatives
    ctx.extra["precedence_space"] = {"enumerated_completely": scale >= 1, "patterns": pats, "max_sections": 4 if not quick else 3, "formats": fmts, "layer_variants": 4,
                                     "module_names": len(names), "cases_total": total_cases, "cases_run": len(cases)}
    e2e_pool = [c for c in cases if len(c["sections"]) >= 2]
    rng2 = common.rng_for("C17", "e2e")
    rng2.shuffle(e2e_pool)
    e2e_cases = []
    for c in e2e_pool[:n_e2e]:
        c = dict(c)
        r = common.rng_for("C17", "inline", json.dumps(c, sort_keys=True))
        c["inline"] = {m: r.choice(["id", "bools", "inv"]) for m in r.sample(names, 9)}
        e2e_cases.append(c)
    # group e2e cases by layer variant so that a chunk shares one seeded cache
    e2e_cases.sort(key=lambda c: c["variant"])

    def chunks(xs: list[Any], n: int) -> Iterator[list[Any]]:
        for i in range(0, len(xs), n):
            yield xs[i:i + n]

    with common.workdir("C17") as wd:
        env = common.base_env(VERIF_POOL_ROOT=wd)
        # in-process mypy runs leak a few MB each: recycle workers often (a task is 10-60 s, a restart ~1 s)
        with Pool(env=env, recycle_after=12) as pool:
            (t0, r0), = pool.map([{"fn": T + "table", "args": {}}], timeout=120)
            if not r0.get("ok"):
                raise RuntimeError(f"cannot read the option table from the live code: {r0}")
            tab = r0["res"]
            ctx.extra["option_table"] = {
                "cli_or_config_options": len(tab["entries"]), "documented_confvals": len(tab["documented"]),
                "per_module_options": len(tab["per_module"]), "skipped_argparse_actions": tab["skipped_actions"],
                "config_accepts_but_internal_not_judged": tab["config_accepts_undocumented_internal"]}
            n_groups = 0
            walls: list[tuple[float, str, int]] = []
            harness_errors: list[str] = []

            only = os.environ.get("VERIF_C17_ONLY", "")  # development aid: run one part only (floors then make the run inconclusive)

            def tasks() -> Iterator[dict[str, Any]]:
                nonlocal n_groups
                for t in equiv_tasks(ctx, tab, scale):
                    if only and "equiv" not in only and not (only.startswith("opt=") and t["_group"]["dest"] in only[4:].split(",")):
                        continue
                    if only.startswith("opt=") and t["_group"]["dest"] not in only[4:].split(","):
                        continue
                    n_groups += 1
                    yield t
                if only and "prec" not in only:
                    return
                for ch in chunks(e2e_cases, 6):
                    yield {"fn": T + "e2e_chunk", "args": {"cases": ch, "names": names}, "_kind": "e2e", "_timeout": 900}
                for i, ch in enumerate(chunks(cases, 40)):
                    yield {"fn": T + "prec_chunk", "args": {"cases": ch, "names": names, "order_seed": f"{ctx.seed}/{i}"},
                           "_kind": "prec", "_timeout": 600}

            for t, r in pool.imap(tasks(), timeout=900):
                if not r.get("ok"):
                    ctx.inconc(f"{t['_kind']}:runner:" + ("timeout" if r.get("timeout") else f"died(rc={r.get('returncode')})" if r.get("died")
                                                          else str(r.get("exc"))[:80]))
                    if r.get("tb"):
                        ctx.extra.setdefault("runner_errors", []).append(r["tb"][-600:])
                    continue
                try:  # never abandon the pool iterator half-way (its threads would keep restarting workers)
                    if t["_kind"] == "equiv":
                        walls.append((round(r.get("wall", 0), 1), t["_group"]["dest"], len(t["_group"]["runs"])))
                        judge_group(ctx, t["_group"], r["res"])
                    else:
                        judge_prec(ctx, t, r["res"])
                except Exception:
                    import traceback
                    harness_errors.append(traceback.format_exc()[-1500:])
    ctx.extra["slowest_option_groups"] = sorted(walls, reverse=True)[:8]
    if harness_errors:
        print(harness_errors[0])
        raise RuntimeError(f"{len(harness_errors)} harness error(s) while judging (not a verdict on the code under test)")
    # every part must have been observed: a run in which one part vanished (timeouts, dead workers) is not "held"
    done = {"groups": ctx.cells.get("option-groups-judged", 0), "prec": ctx.cells.get("prec:cases", 0), "e2e": ctx.cells.get("e2e:cases", 0)}
    want = {"groups": n_groups, "prec": len(cases), "e2e": len(e2e_cases)}
    ctx.extra["parts"] = {"done": done, "planned": want}
    part_missing = [k for k in want if not os.environ.get("VERIF_C17_ONLY") and done[k] < 0.6 * want[k]]
    # floors: ~40% of what the unchanged tree yields
    # (unchanged tree, scale 1: quick ~74k evaluations / ~12.5k distinct non-trivial; thorough ~1.4M / ~240k)
    f = min(scale, 1.0) * (0.5 if scale < 1 else 1.0)
    if quick:
        ctx.floor_evaluations = int(30000 * f)
        ctx.floor_nontrivial = int(5000 * f)
    else:
        ctx.floor_evaluations = int(300000 * f)
        ctx.floor_nontrivial = int(50000 * f)
    if part_missing:
        ctx.inconc("part-incomplete:" + ",".join(part_missing))
        ctx.floor_evaluations = 10 ** 9
    ctx.max_samples = 10


def compose_stream(ctx: common.Ctx, n: int) -> None:
    """Sections with DISJOINT options over overlapping patterns, as mypy.ini and as pyproject.toml (module lists): the effective
    per-module options must be the union of all matching sections, in both formats (vlib/tasks/c17_compose.py)."""
    from vlib.tasks import c17_compose as CC
    pats = ["a", "a.b", "a.*", "a.b.*", "*.b", "a.*.c", "*.c", "b", "b.*", "*.b.*"]
    mods = module_names()

    def cases() -> Iterator[dict[str, Any]]:
        for k in range(n):
            r = common.rng_for("C17", "compose", k if k < n * 2 // 3 else (ctx.seed, k))
            bools = r.sample(CC.BOOL_OPTS, 4)
            codes = {o: r.sample(v, 3) for o, v in CC.CODE_OPTS.items()}
            sections = []
            avail = list(pats)
            r.shuffle(avail)   # every pattern names at most one section (a repeated header replaces the earlier one by design)
            for si in range(r.randint(2, 4)):
                opts: dict[str, Any] = {}
                if bools and r.random() < 0.7:
                    opts[bools.pop()] = "True"
                for o in CC.CODE_OPTS:
                    if codes[o] and r.random() < 0.5:
                        opts[o] = [codes[o].pop()]
                if not opts:
                    opts[bools.pop() if bools else "warn_unreachable"] = "True"
                take = [avail.pop() for _ in range(min(len(avail), r.choice([1, 1, 2, 3])))]
                if take:
                    sections.append({"patterns": take, "opts": opts})
            # TOML only: the same module may be named by several overrides that set different options - split one
            # multi-option section into "all its modules get part 1" + "its first module also gets part 2"
            toml_sections = None
            cand = [s_ for s_ in sections if len(s_["patterns"]) >= 2 and len(s_["opts"]) >= 2]
            if cand and r.random() < 0.6:
                sp = r.choice(cand)
                keys = sorted(sp["opts"])
                part2 = {keys[-1]: sp["opts"][keys[-1]]}
                part1 = {k_: sp["opts"][k_] for k_ in keys[:-1]}
                first, rest = sp["patterns"][0], sp["patterns"][1:]
                toml_sections = [s_ for s_ in sections if s_ is not sp] + [{"patterns": sp["patterns"], "opts": part1}, {"patterns": [first], "opts": part2}]
                sections = [s_ for s_ in sections if s_ is not sp] + [{"patterns": [first], "opts": dict(sp["opts"])}, {"patterns": rest, "opts": part1}]
            yield {"fn": "vlib.tasks.c17_compose:compose", "args": {"sections": sections, "modules": mods, "toml_sections": toml_sections}, "_k": k}

    with common.workdir("C17c") as wd:
        with Pool(env=common.base_env(VERIF_POOL_ROOT=wd)) as pool:
            for t, r in pool.imap(cases(), timeout=300):
                if not r.get("ok"):
                    ctx.inconc("compose:runner")
                    continue
                res = r["res"]
                for fmt in ("ini", "toml"):
                    got = res[fmt]
                    if got.get("rejected"):
                        ctx.violation(f"compose:{fmt}:config-rejected", f"valid composed config rejected: {got.get('err')}", {"task": t, "fmt": fmt, "err": got.get("err")})
                        continue
                    for m, exp in res["expected"].items():
                        ctx.count()
                        g = got["mods"][m]
                        nmatch = sum(1 for sct in t["args"]["sections"] if any(CC.matches(p, m) for p in sct["patterns"]))
                        if nmatch >= 2:
                            ctx.nontriv("compose", t["_k"], fmt, m)
                        ctx.cell(f"compose:{fmt}:matching-sections={min(nmatch, 3)}")
                        if g != exp:
                            bad = sorted(k for k in exp if g.get(k) != exp[k])
                            kinds = sorted({("error-code-list" if k.endswith("error_code") else "bool") for k in bad})
                            lost = any((set(exp[k]) - set(g[k])) if isinstance(exp[k], list) else (exp[k] and not g[k]) for k in bad)
                            ctx.violation(f"compose:{fmt}:{'setting-lost' if lost else 'setting-leaked'}:{'+'.join(kinds)}:matching-sections={min(nmatch, 3)}",
                                          f"module {m}: effective {bad} differ from the union of the matching sections ({fmt})",
                                          {"task": t, "fmt": fmt, "module": m, "got": g, "expected": exp})
                            break


def judge_prec(ctx: common.Ctx, t: dict[str, Any], res: dict[str, Any]) -> None:
    kind = t["_kind"]
    for c in res["cases"]:
        case = c["case"]
        if c.get("failed"):
            ctx.inconc(f"{kind}:front-end-failed:{str(c['failed'].get('crash') or c['failed'].get('status'))[:40]}")
            ctx.extra.setdefault("failed_cases", []).append({"case": case, **c["failed"]})
            continue
        if c.get("errors"):
            ctx.inconc(f"{kind}:contract-error")
            ctx.extra.setdefault("contract_errors", []).append(c["errors"][0])
        if c.get("missing_state"):
            ctx.inconc(f"{kind}:state-hook-not-reached", len(c["missing_state"]))
        ctx.count(c.get("evals", 0))
        for name, n in (c.get("cells") or {}).items():
            ctx.cell(f"{kind}:{name}", n)
        ctx.cell(f"{kind}:cases")
        ctx.cell(f"{kind}:variant={case['variant']}:{case['fmt']}")
        if c.get("n_inline"):
            ctx.cell("e2e:modules-with-inline", c["n_inline"])
        # distinct non-trivial evaluations: (case, module, observation point); the worker counted them
        for i in range(c.get("nontrivial", 0)):
            ctx.nontrivial.add(common.fingerprint(kind, json.dumps(case, sort_keys=True), i))
        seen: set[str] = set()
        for v in c.get("violations") or []:
            if v["key"] in seen:
                continue
            seen.add(v["key"])
            report(ctx, v["key"],
                   f"module {v['module']}: {v['option']} = {v['got']!r} observed at {v['where']}, documented precedence allows "
                          f"{[a for a, _ in v['allowed']]} (decided by {[b for _, b in v['allowed']]}); sections in file order: {case['sections']}",
                          {"case": case, "config": c.get("config"), "argv": c.get("argv"), "violation": v,
                           "other_violations_same_case": c.get("n_violations"), "output_tail": c.get("out"),
                           "section_settings": "vlib.tasks.c17_tasks.section_settings(i) / layers(variant)"})
        if not c.get("violations") and c.get("nontrivial") and (len(case["sections"]) == 3) \
                and sum(1 for x in ctx.samples if x.get("kind") == kind) < 2:
            ctx.sample({"kind": kind, "sections": case["sections"], "variant": case["variant"], "fmt": case["fmt"],
                        "evaluations": c.get("evals"), "modules_with_>=2_matching_sections": c.get("nontrivial")}, force=True)


def replay(ctx: common.Ctx, rep: dict[str, Any]) -> int:
    """Re-execute one witness against the current tree."""
    w = rep["witness"]
    with common.workdir("C17r") as wd:
        with Pool(n=1, env=common.base_env(VERIF_POOL_ROOT=wd)) as pool:
            if "case" in w:
                case = w["case"]
                fn = "e2e_chunk" if "inline" in case else "prec_chunk"
                args: dict[str, Any] = {"cases": [case], "names": module_names()}
                if fn == "prec_chunk":
                    args["order_seed"] = "replay"
                (t, r), = pool.map([{"fn": T + fn, "args": args}], timeout=600)
                print(json.dumps(r.get("res"), indent=1)[:6000])
                vs = [v for c in (r.get("res") or {}).get("cases", []) for v in c.get("violations") or []]
                return 1 if vs else 0
            runs = [x["plan"] for x in w["runs"]]
            (t, r), = pool.map([{"fn": T + "equiv_group", "args": {"runs": runs, "files": plan.WITNESS, "build": w.get("build", True)}}],
                               timeout=600)
            if not r.get("ok"):
                print(r)
                return 2
            g = dict(w.get("group") or {"dest": w["option"], "build": w.get("build", True), "check_key": w["option"], "default": None})
            g["runs"], g["notes"] = runs, []
            _PER_KEY.clear()
            judge_group(ctx, g, r["res"])
            for o in r["res"]["runs"]:
                print(json.dumps({k: o.get(k) for k in ("id", "status", "global", "mods", "targets")}, default=str)[:1500])
            keys = sorted({v["key"] for v in ctx.violations} | set(ctx.known_hits))
            print("violation keys on the current tree:", keys or "none")
            return 1 if keys else 0
