"""C07 - parallel checking gives the sequential result under every schedule.

M1: `mypy -n N` (fresh processes, shim perturbing the schedule) vs sequential `--native-parser` run;
M2: offline checker over the merged coordinator/worker event log (dependency-before-dependent, exactly-once);
M3: warm follow-up runs (sequential and parallel, also after an edit) on the cache the parallel build left."""

from __future__ import annotations

import os
import random
from typing import Any, Iterator

from vlib import common
from vlib.pool import Pool

T = ["int", "str", "bytes", "float", "bool"]
V = {"int": "1", "str": "'s'", "bytes": "b'b'", "float": "1.5", "bool": "True"}


def gen_graph(rng: random.Random, n: int, shape: str) -> tuple[dict[str, str], dict[str, str]]:
    """A project with a controlled import graph; returns (files, files after an interface edit)."""
    deps: dict[int, list[int]] = {i: [] for i in range(n)}
    if shape == "chain":
        for i in range(1, n):
            deps[i].append(i - 1)
    elif shape == "fan":
        for i in range(1, n):
            deps[i].append(0)
    elif shape == "diamond":
        for i in range(1, n):
            deps[i] = sorted(set(rng.sample(range(i), min(i, 2))))
    else:  # mixed
        for i in range(1, n):
            deps[i] = sorted(set(rng.sample(range(i), min(i, rng.randint(1, 3)))))
    cycles: list[tuple[int, int]] = []
    if shape in ("mixed", "cycles"):
        for _ in range(max(1, n // 6)):
            a = rng.randrange(1, n)
            b = rng.choice(deps[a]) if deps[a] else 0
            cycles.append((b, a))   # b imports a back -> cycle
    rt = {i: rng.choice(T) for i in range(n)}

    def render(ret: dict[int, str]) -> dict[str, str]:
        files = {}
        for i in range(n):
            lines = ["from typing import List, Optional\n"]
            for j in deps[i]:
                lines.append(f"import m{j}\n")
            for (b, a) in cycles:
                if b == i:
                    lines.append(f"import m{a}\n")
            lines.append(f"def f{i}(x: int = 0) -> {ret[i]}:\n    return {V[ret[i]]}\n")
            lines.append(f"class C{i}:\n    attr: {ret[i]} = {V[ret[i]]}\n    def m(self) -> 'C{i}':\n        return self\n")
            for k, j in enumerate(deps[i]):
                want = rt[j] if (i + k) % 3 else rng.choice(T)   # some uses are wrong from the start
                lines.append(f"u{i}_{k}: {want} = m{j}.f{j}()\n")
                # interface of THIS module that is inferred from a dependency: editing m{j} changes m{i}'s interface
                # although m{i}'s source is untouched (transitive interface propagation)
                lines.append(f"v{i}_{k} = m{j}.f{j}()\n")
                if k == 0 and j in deps and deps[j]:
                    jj = deps[j][0]
                    lines.append(f"t{i}: {rt[jj]} = m{j}.v{j}_0\n")
                lines.append(f"class S{i}_{k}(m{j}.C{j}):\n    attr = {V[want]}\n")
            for (b, a) in cycles:
                if b == i:
                    lines.append(f"def late{i}_{a}() -> {rt[a]}:\n    return m{a}.f{a}()\n")
            if i % 4 == 0:
                lines.append(f"reveal_type(f{i})\n")
            files[f"m{i}.py"] = "".join(lines)
        files["main.py"] = "".join(f"import m{i}\n" for i in range(n)) + "reveal_type(m0.f0())\n"
        return files

    f0 = render(rt)
    rt2 = dict(rt)
    for i in rng.sample(range(n), max(1, n // 4)):
        rt2[i] = rng.choice([t for t in T if t != rt[i]])
    return f0, render(rt2)


DEF_BODIES = ["return ''", "x: int = ''\n{i}    return 0", "return undefined_name_{k}", "return 1 + ''"]
CONTEXTS = [
    # (prefix lines, indentation of the def, suffix lines); every def body holds a type error that must be reported
    ("", "", ""),
    ("import sys\nif sys.argv:\n    sys.exit(1)\n", "", ""),                       # after a possible exit
    ("import sys\nsys.exit(0)\n", "", ""),                                        # unreachable tail of the module
    ("def _noret() -> 'NoReturn': ...\nfrom typing import NoReturn\n_noret()\n", "", ""),
    ("assert False\n", "", ""),
    ("raise RuntimeError()\n", "", ""),
    ("class K{k}:\n    y = 1\n", "    ", ""),
    ("class K{k}:\n    raise RuntimeError()\n", "    ", ""),
    ("try:\n    pass\nexcept Exception:\n", "    ", ""),
    ("try:\n    pass\nfinally:\n", "    ", ""),
    ("if int():\n", "    ", "else:\n    pass\n"),
    ("while False:\n", "    ", ""),
    ("for _q in []:\n", "    ", ""),
    ("def outer{k}() -> None:\n", "    ", ""),
    ("def outer{k}() -> None:\n    return\n", "    ", ""),
    ("with open('f') as _f:\n", "    ", ""),
    ("from typing import TYPE_CHECKING\nif not TYPE_CHECKING:\n", "    ", ""),
    ("import sys\nif sys.version_info < (3, 0):\n", "    ", ""),
]
DEF_FORMS = ["def f{k}() -> int: {one}", "def f{k}() -> int:\n{i}    {body}", "async def f{k}() -> int:\n{i}    {body}",
             "@staticmethod\n{i}def f{k}() -> int:\n{i}    {body}", "def f{k}(a: int = '') -> int:\n{i}    {body}",
             "f{k} = lambda: 1 + ''", "def f{k}() -> int:\n{i}    def g() -> str:\n{i}        return 1\n{i}    {body}"]


def phase_split_program(rng: random.Random, n_units: int) -> dict[str, str]:
    """Definitions in every kind of syntactic context (reachable and unreachable, one-line and multi-line, last statement of
    a region or not): the parallel build checks function bodies in a separate implementation phase and must report exactly
    what the sequential build reports."""
    files = {}
    main = []
    for m in range(n_units):
        parts = []
        k = 0
        for _ in range(rng.randint(1, 3)):
            pre, ind, suf = rng.choice(CONTEXTS)
            k += 1
            form = rng.choice(DEF_FORMS)
            body = rng.choice(DEF_BODIES).format(i=ind, k=k)
            one = body.split("\n")[0] if "\n" not in body else "return ''"
            text = pre.format(k=k) + ind + form.format(k=k, i=ind, body=body, one=one) + "\n" + suf
            if rng.random() < 0.5:
                text += ind + f"z{k}: int = 0\n"       # sometimes the def is NOT the last statement of its region
            parts.append(text)
        files[f"u{m}.py"] = "".join(parts)
        main.append(f"import u{m}\n")
    files["main.py"] = "".join(main)
    return files


def cases(ctx: common.Ctx, n_prog: int, n_sched: int) -> Iterator[dict[str, Any]]:
    for k in range(max(2, n_prog // 2)):
        r = common.rng_for("C07", "phase", ctx.seed, k)
        f0 = phase_split_program(r, 14)
        yield {"fn": "vlib.tasks.parallel:run_case",
               "args": {"versions": [f0], "n": [2, 3][k % 2], "scheds": [f"{ctx.seed}-ps{k}:default"], "targets": ["main.py"], "flags": [], "store_flags": []},
               "_k": f"phase{k}", "_shape": "phase-split", "_size": 14}
    shapes = ["chain", "fan", "diamond", "mixed", "cycles", "mixed"]
    for k in range(n_prog):
        r = common.rng_for("C07", "p", k)
        shape = shapes[k % len(shapes)]
        size = r.choice([10, 16, 24, 40]) if ctx.tier == "quick" else r.choice([10, 20, 40, 60])
        f0, f1 = gen_graph(r, size, shape)
        n = [2, 3, 4, 2, 3, 8, 1][k % 7] if ctx.tier == "thorough" else [2, 3, 4][k % 3]
        modes = ["default", "one", "all"]
        scheds = [f"{ctx.seed}-{k}-{j}:{modes[(j + k) % 3]}" for j in range(n_sched)]
        store = [[], ["--no-sqlite-cache"]][k % 2]
        yield {"fn": "vlib.tasks.parallel:run_case",
               "args": {"versions": [f0, f1], "n": n, "scheds": scheds, "targets": ["main.py"], "flags": [], "store_flags": store},
               "_k": k, "_shape": shape, "_size": size}


def run(ctx: common.Ctx) -> None:
    quick = ctx.tier == "quick"
    scale = float(os.environ.get("VERIF_SCALE", "1"))
    n_prog, n_sched = (max(2, int(8 * scale)), 3) if quick else (max(4, int(30 * scale)), 6)
    ctx.rule = ("generated import graphs (chain / fan / diamond / mixed DAG / with 2-module cycles; 10-60 modules, several errors that "
                "depend on imported interfaces) x N in 1..8 x schedules (seeded delays at message/commit boundaries, permuted "
                "free-worker choice, shuffled ready order, batch size one/all/default) x both stores; cold and after an interface "
                "edit; non-trivial = run where >=2 workers processed SCCs and >=1 cross-worker dependency; distinct by schedule signature")
    ctx.assumptions += ["both sides use --native-parser", "worker start-up deadline lengthened to 120 s (wall-clock constant; machine load must not decide)",
                        "order across files not compared", "delays only at existing suspension points (before interface phase, between phases, before send)"]
    ctx.floor_nontrivial = max(2, int(n_prog * n_sched * 0.3))
    ctx.floor_evaluations = n_prog * n_sched
    signatures: set[str] = set()
    with common.workdir("C07") as wd:
        env = common.base_env(VERIF_POOL_ROOT=wd)
        with Pool(n=max(2, common.NCPU // 4), env=env) as pool:
            for t, r in pool.imap(cases(ctx, n_prog, n_sched), timeout=3600):
                if not r.get("ok"):
                    ctx.inconc("runner:" + ("timeout" if r.get("timeout") else "died" if r.get("died") else str(r.get("exc"))[:80]))
                    continue
                res = r["res"]
                if res.get("failed"):
                    ctx.inconc(res["failed"])
                    continue
                for run_ in res["runs"]:
                    if run_.get("inconclusive"):
                        ctx.inconc(run_["inconclusive"])
                        continue
                    ctx.count()
                    h = run_.get("history", {})
                    ctx.cell(f"shape:{t['_shape']}|n={run_['n']}")
                    ctx.cell("events", run_.get("n_events", 0))
                    if h.get("schedule_signature"):
                        signatures.add(h["schedule_signature"])
                    if len(h.get("workers_used", [])) >= 2 and h.get("cross_worker_deps", 0) >= 1:
                        ctx.nontriv(h.get("schedule_signature"), t["_k"])
                    wit = {"task": {k: v for k, v in t.items() if k != "args"}, "n": run_["n"], "sched": run_["sched"],
                           "files": t["args"]["versions"], "store": t["args"]["store_flags"]}
                    if not run_["equal"]:
                        ctx.violation("parallel-output-differs-from-sequential", f"-n {run_['n']} (sched {run_['sched']}) differs from sequential",
                                      {**wit, "parallel": run_["out"], "sequential": res["seq0"]["out"], "diffs": run_.get("diffs")})
                    for b in run_.get("history_bad", []) + run_.get("edit_history_bad", []):
                        ctx.violation("protocol-history:" + b.split(":")[0], f"protocol safety condition violated: {b}", {**wit, "history": h})
                    if run_.get("warm_seq_equal") is False:
                        ctx.violation("cache-left-by-parallel-build:warm-sequential-differs", "sequential warm run on the parallel build's cache differs from cold",
                                      {**wit, "warm": run_.get("warm_seq_out"), "cold": res["seq0"]["out"], "diffs": run_.get("warm_seq_diffs")})
                    if run_.get("edit_par_equal") is False:
                        ctx.violation("parallel-after-edit-differs-from-sequential", "parallel warm run after an interface edit differs from sequential cold",
                                      {**wit, "parallel": run_.get("edit_par_out"), "sequential": (res.get("seq1") or {}).get("out"), "diffs": run_.get("edit_par_diffs")})
                    if run_.get("edit_warm_equal") is False:
                        ctx.violation("cache-left-by-parallel-build:warm-after-edit-differs", "sequential warm run after parallel-after-edit differs from cold",
                                      {**wit, "diffs": run_.get("edit_warm_diffs")})
                    if run_.get("revert_warm_equal") is False:
                        ctx.violation("cache-left-by-parallel-build:warm-after-revert-differs",
                                      "after edit -> parallel run -> revert, the warm run differs from the cold run of the original files",
                                      {**wit, "warm": run_.get("revert_warm_out"), "cold": res["seq0"]["out"], "diffs": run_.get("revert_warm_diffs")})
                    if run_["equal"] and len(ctx.samples) < 6:
                        ctx.sample({"program": t["_k"], "shape": t["_shape"], "modules": t["_size"], "n": run_["n"], "sched": run_["sched"],
                                    "workers_used": h.get("workers_used"), "sccs_processed": h.get("n_sccs_processed"),
                                    "cross_worker_deps": h.get("cross_worker_deps"), "events": run_.get("n_events")})
    ctx.extra["distinct_schedules_observed"] = len(signatures)
