"""C05 - mypyc-compiled code behaves like the interpreted source.

Differential oracle: generated three-module programs of the mypyc-supported typed fragment (vlib/c05_gen*.py) are
compiled with the repository's mypyc + lib-rt (opt 0 / opt 3; one group, multi_file, separate) and driven by one
driver (vlib/c05_driver.py) once as plain interpreted modules and once per compiled configuration.  Every observable
goes through the driver's recorder: returned values (repr-with-type, no addresses), exception type + message at each
call site, captured stdout, values yielded by generators, post-state of objects passed in, process exit status.
Transcripts are compared call by call.  Thorough tier adds the repository's mypyc/test-data/run-*.test programs as
workload (their asserts are ignored; the same recorder wraps their test_* functions).
"""

from __future__ import annotations

import os
import re
from typing import Any

from vlib import c05_flow as F, c05_gen as G, c05_program as P, common
from vlib.pool import Pool

CONFIG_SETS = {
    "quick": lambda k: ["o0", "o3"] + (["mf0"] if k == 0 else ["sep3"] if k == 1 else []),
    "thorough": lambda k: ["o0", "o3", "mf0", "mf3", "sep0", "sep3"],
}


DIRECTED_KINDS = ("generator:protocol", "class:deep-defaults", "uninit:del-rebind")


def _kind_of(ev: list[Any]) -> str:
    return ev[0] + (":" + ev[1] if ev[0] in ("exc", "setup-exc", "post-exc", "close-exc") else "")


def classify(unit: dict[str, Any], call: dict[str, Any], ref: list[list[Any]], got: list[list[Any]]) -> tuple[str, str]:
    """(mechanism key, description) of the first difference between the interpreted and the compiled transcript."""
    kind = unit["kind"]
    free = kind.startswith("free")
    n = min(len(ref), len(got))
    i = next((j for j in range(n) if ref[j] != got[j]), n)
    a = ref[i] if i < len(ref) else ["<nothing>"]
    b = got[i] if i < len(got) else ["<nothing>"]
    if a[0] in ("exc", "setup-exc") and b[0] == a[0]:
        if a[1] != b[1]:
            # free-form units: the compiled exception may simply come earlier than the interpreted one, so the interpreted
            # type is an accident of the unit, not part of the mechanism
            return (f"exc-type:{'*' if free else a[1]}->{b[1]}:{F.norm_msg(str(b[2]))}",
                    f"interpreted raises {a[1]}({a[2]!r}), compiled raises {b[1]}({b[2]!r})")
        # (keyed by the compiled wording only: CPython's wording usually embeds the offending value)
        return (f"exc-message:{a[1]}:compiled says '{F.norm_msg(str(b[2]))}'",
                f"same exception type {a[1]} but different message: {a[2]!r} vs {b[2]!r}")
    if a[0] in ("exc", "setup-exc") and b[0] != a[0]:
        return (f"missing-exception:{a[1]}:{F.norm_msg(str(a[2]))}:{kind}", f"interpreted raises {a[1]}({a[2]!r}), compiled yields {b[:2]}")
    if b[0] in ("exc", "setup-exc"):
        return (f"spurious-exception:{b[1]}:{F.norm_msg(str(b[2]))}:{kind}", f"compiled raises {b[1]}({b[2]!r}), interpreted yields {a[:2]}")
    if a[0] == "forced" and b[0] == "forced":
        x, y = a[2] or ["?"], b[2] or ["?"]
        xs = x[1] if x[0] == "exc" else x[0]
        ys = y[1] if y[0] == "exc" else y[0]
        cb = (str(y[2]) if ys == "Boom" else str(x[2]) if xs == "Boom" else "").split("@")[0]
        return (f"forced-callback-error:{xs}->{ys}:{cb or F.norm_msg(str(y[2:3]))}:{'free' if free else kind}",
                f"callback #{a[1]} into an interpreted object raises: interpreted run ends with {x}, compiled with {y}")
    what = {"ret": "value", "yield": "yielded-value", "callbacks": "callback-sequence", "stop": "generator-return", "out": "stdout", "post": "post-state",
            "post-exc": "post-state"}.get(a[0] if a[0] != "<nothing>" else b[0], "events")
    if a[0] != b[0]:
        what = f"event-sequence:{a[0]}->{b[0]}"
    tags = ""
    if free and a[0] in ("ret", "yield", "stop") and b[0] == a[0]:
        # free-form units: the representation class of the differing value narrows the mechanism
        ta = _types(a[-1]), _types(b[-1])
        tags = ":" + "->".join(ta) if ta[0] != ta[1] else ":" + ta[0]
    if free and a[0] == b[0] and a[0] in ("out", "callbacks"):
        # free-form units print caught exceptions / call back in sequence: the first differing item names the mechanism
        # (usually an exception message that is already a key of its own when it escapes)
        xs = str(a[-1]).split("\n") if a[0] == "out" else list(a[-1]) if isinstance(a[-1], list) else str(a[-1]).split(" ")
        ys = str(b[-1]).split("\n") if b[0] == "out" else list(b[-1]) if isinstance(b[-1], list) else str(b[-1]).split(" ")
        j = next((k for k in range(min(len(xs), len(ys))) if xs[k] != ys[k]), min(len(xs), len(ys)))
        tags = ":compiled has '" + F.norm_msg(str(ys[j]) if j < len(ys) else "<nothing>")[:70] + "'"
        if a[0] == "callbacks":
            if xs[:j] + xs[j + 1:] == ys:
                tags = f":only the interpreted run calls '{xs[j]}'"
            elif ys[:j] + ys[j + 1:] == xs:
                tags = f":only the compiled run calls '{ys[j]}'"
            else:
                tags += " where interpreted has '" + (str(xs[j]) if j < len(xs) else "<nothing>")[:30] + "'"
    if kind in DIRECTED_KINDS:
        # directed units have a fixed, small call list: the call is part of the mechanism
        tags += ":" + re.sub(r"\bu\d+", "U", str(call.get("call")))
    return f"{what}:{kind}{tags}", f"{what} differs: interpreted {str(a)[:200]} vs compiled {str(b)[:200]}"


def _types(shown: Any) -> str:
    m = re.match(r"<?(\w+)", str(shown))
    return m.group(1) if m else "?"


def compare(ctx: common.Ctx, prog: dict[str, Any], cfg: str, ref: dict[str, Any], got: dict[str, Any],
            irs: dict[str, set[str]], repo: str, seen_pairs: set[tuple[str, str]]) -> None:
    for c in got["crashes"]:
        u = next((x for x in prog["units"] if x["name"] == c["unit"]), None)
        call = next((k for k in (u["calls"] if u else []) if k["id"] == c["call"]), None)
        if c.get("timeout"):
            ctx.inconc("compiled-run-watchdog")
            continue
        sig = c.get("signal") or f"exit-status-{c.get('status')}"
        ctx.violation(f"crash:{sig}:{u['kind'] if u else 'module-import-or-exit'}",
                      f"compiled process died ({sig}) while the interpreted run completed the same call",
                      {"config": cfg, "unit_source": u["src"] if u else None, "call": call, "stderr": c.get("stderr"),
                       "files": prog["files"], "repo": repo})
    for u in prog["units"]:
        outcomes: set[str] = set()
        compared = 0
        for call in u["calls"]:
            r = ref["calls"].get(call["id"])
            g = got["calls"].get(call["id"])
            if r is None:
                ctx.inconc("reference-call-missing")
                continue
            if g is None:
                if not any(c["call"] == call["id"] for c in got["crashes"]):
                    ctx.inconc("compiled-call-missing")
                continue
            if call.get("stateful") and (ref["crashes"] or got["crashes"]):
                ctx.inconc("stateful-call-after-process-restart")
                continue
            ctx.count()
            compared += 1
            a, b = r["ev"], g["ev"]
            if call.get("type_only"):
                a = [[_kind_of(e)] for e in a if e[0] != "out"]
                b = [[_kind_of(e)] for e in b if e[0] != "out"]
            for e in r["ev"]:
                outcomes.add(str(e[:3])[:120])
                if e[0] in ("ret", "exc", "stop"):
                    ctx.cell("outcome:" + _kind_of(e))
            if a != b:
                key, what = classify(u, call, a, b)
                if (key, cfg) in seen_pairs and len(ctx.violations) > 60:
                    continue
                seen_pairs.add((key, cfg))
                ctx.violation(key, what, {"config": cfg, "unit_kind": u["kind"], "unit_source": u["src"], "standalone_source": P.standalone(u), "call": call,
                                          "driver_prelude": u.get("prelude") or "", "classes": u.get("classes") or {},
                                          "interpreted": r["ev"], "compiled": g["ev"], "module": u["mod"],
                                          "program_files": sorted(prog["files"]), "repo": repo,
                                          "how": "compile the program's modules with mypycify(opt_level/multi_file/separate per `config`), "
                                                 "run vlib/c05_driver.py with the call; compare with the same driver on the .py files"})
        ops = irs.get(u["name"], set())
        spec = sorted(o for o in ops if F.is_specialised(o))
        if compared and spec and len(outcomes) >= 3:
            ctx.nontriv(tuple(spec))
        if compared:
            for o in ops:
                if o.startswith("c:"):
                    ctx.cell("prim:" + o[2:])
            for t in u["tags"]:
                ctx.cell("construct:" + t)
            ctx.cell("unit-kind:" + u["kind"].split(":")[0])


def run(ctx: common.Ctx) -> None:
    quick = ctx.tier == "quick"
    scale = float(os.environ.get("VERIF_SCALE", "1"))
    n_prog = max(1, round((8 if quick else 12) * scale))
    n_units = 42 if quick else 50
    n_corpus = 0 if quick else max(0, round(200 * scale))
    ctx.rule = ("generated 3-module programs (template units: one primitive/loop helper/call shape/class feature/generator/closure/"
                "exception form x random operand representation; free-form units: random typed statement trees), each unit driven with "
                "5-10 generated argument tuples, interpreted vs each compiled configuration.  non-trivial unit = final IR of its "
                "functions contains >=1 specialised primitive / native call AND the reference run recorded >=3 distinct outcomes; "
                "distinct by the set of specialised op names in its IR")
    ctx.assumptions += ["documented differences are avoided by construction: drivers pass only values of the declared types (no bool for int, "
                        "no out-of-range fixed-width ints), no identity checks on ints/tuples, no monkey patching, no __dict__ of native instances",
                        "ill-formed call shapes (wrong arity / unknown keyword) are compared by exception type only",
                        "watchdog (900 s per driver run) => inconclusive", "trusted base: CPython 3.12, gcc/clang, setuptools"]
    ctx.floor_nontrivial = int(n_prog * 8)
    ctx.floor_evaluations = int(n_prog * 2 * 100)
    repo = common.REPO
    seen_pairs: set[tuple[str, str]] = set()
    with common.workdir("C05") as wd:
        env = common.base_env(VERIF_POOL_ROOT=wd)
        progs = F.generate_programs("C05", n_prog, n_units, "c05")
        cfgsel = CONFIG_SETS[ctx.tier]
        configs_for = {p["name"]: cfgsel(k) for k, p in enumerate(progs)}
        with Pool(env=env) as pool:
            built = F.build_all(ctx, pool, wd, progs, "o0", configs_for)
            by_name = {p["name"]: p for p in progs}
            results: dict[tuple[str, str], dict[str, Any]] = {}
            for t, r in pool.imap(F.drive_tasks(wd, progs, built, "transcript", {}, {}), timeout=3600):
                if not r.get("ok"):
                    ctx.inconc("drive-task:" + ("timeout" if r.get("timeout") else str(r.get("exc"))[:60]))
                    continue
                results[(t["_prog"], t["_cfg"])] = r["res"]
            registered: set[str] = set()
            exercised: set[str] = set()
            for (name, cfg), got in sorted(results.items()):
                if cfg == "interp":
                    continue
                prog = by_name[name]
                ref = results.get((name, "interp"))
                if ref is None or not ref["done"] or any(not c.get("timeout") for c in ref["crashes"]):
                    ctx.inconc("reference-run-incomplete")
                    ctx.extra.setdefault("reference_problems", []).append({"program": name, "stderr": (ref or {}).get("stderr"),
                                                                            "crashes": (ref or {}).get("crashes")})
                    continue
                if got["header"].get("import_error"):
                    ctx.violation(f"import-error:{got['header']['import_error'][0]}:{F.norm_msg(got['header']['import_error'][1])}",
                                  "the compiled extension fails to import while the interpreted module imports",
                                  {"config": cfg, "error": got["header"], "files": prog["files"], "repo": repo})
                    continue
                if any(v != "so" for v in (got["header"].get("loaded") or {"x": "?"}).values()) or \
                        any(v != "py" for v in (ref["header"].get("loaded") or {"x": "?"}).values()):
                    ctx.inconc("wrong-module-kind-loaded")
                    continue
                ir = built[(name, cfg)].get("ir") or {}
                irs = F.unit_ir(prog, ir)
                registered.update(ir.get("registered") or [])
                for ops in irs.values():
                    exercised.update(o[2:] for o in ops if o.startswith("c:"))
                ctx.cell("config:" + cfg)
                compare(ctx, prog, cfg, ref, got, irs, repo, seen_pairs)
                if len(ctx.samples) < 6:
                    u = prog["units"][len(ctx.samples) * 5 % len(prog["units"])]
                    c0 = u["calls"][0]
                    ctx.sample({"unit_kind": u["kind"], "config": cfg, "call": c0["call"], "setup": c0["setup"],
                                "interpreted": (ref["calls"].get(c0["id"]) or {}).get("ev"),
                                "compiled": (got["calls"].get(c0["id"]) or {}).get("ev")})
            if n_corpus:
                from vlib import c05_corpus
                c05_corpus.run_corpus(ctx, pool, wd, n_corpus, repo)
        # one witness per mechanism key first: only the first few violations get a replay file written
        first: dict[str, int] = {}
        order = []
        for i, v in enumerate(ctx.violations):
            order.append((0 if v["key"] not in first else 1, i))
            first.setdefault(v["key"], i)
        ctx.violations = [ctx.violations[i] for _, i in sorted(order)]
        if os.environ.get("VERIF_C05_DUMP"):
            import json
            with open(os.environ["VERIF_C05_DUMP"], "w") as f:
                json.dump({"violations": ctx.violations, "known": ctx.known_hits}, f, indent=1, default=str)
        ctx.extra["registered_primitives"] = len(registered)
        ctx.extra["registered_primitives_in_driven_ir"] = len(exercised & registered)
        ctx.extra["c_functions_in_driven_ir"] = len(exercised)
        ctx.extra["construct_tags_total"] = len(G.all_tags())
        ctx.extra["programs"] = len(progs)
        ctx.extra["units"] = sum(len(p["units"]) for p in progs)


def replay(ctx: common.Ctx, rep: dict[str, Any]) -> int:
    """Re-execute one witness: compile its stand-alone source (prelude + the unit) and run the one call both ways."""
    import json
    from vlib import c05_harness as H
    w = rep.get("witness", {})
    if not w.get("standalone_source") or not w.get("call"):
        print(json.dumps(w, indent=1)[:4000])
        return 0
    cfg = w.get("config", "o0")
    cfg = {"mf0": "o0", "mf3": "o3", "sep0": "o0", "sep3": "o3"}.get(cfg, cfg)
    files = {"native.py": w["standalone_source"]}
    spec = {"mode": "transcript", "modules": ["native"], "classes": dict(P.BASE_CLASSES, **(w.get("classes") or {})),
            "prelude": w.get("driver_prelude") or "", "units": [{"name": "u", "calls": [dict(w["call"], id="u#0")]}]}
    with common.workdir("C05-replay") as wd:
        b = H.build_program(files, os.path.join(wd, "c"), cfg)
        if not b["ok"]:
            print("INCONCLUSIVE: the witness program no longer compiles\n" + b.get("log", "")[-1500:])
            return 2
        ref = H.task_drive(spec, os.path.join(wd, "i"), os.path.join(wd, "i.out"), "plain", 300, files)
        got = H.drive_all(spec, os.path.join(wd, "c"), os.path.join(wd, "c.out"), "plain", 300)
    a = (ref["calls"].get("u#0") or {}).get("ev")
    g = (got["calls"].get("u#0") or {}).get("ev")
    print("key:", rep.get("key"))
    print("call:", w["call"].get("setup"), w["call"].get("call"))
    print("interpreted:", json.dumps(a)[:1500])
    print("compiled   :", json.dumps(g)[:1500], got["crashes"] or "")
    same = a == g and not got["crashes"]
    print("REPRODUCED" if not same else "not reproduced (transcripts are equal)")
    return 0 if same else 1
