"""C08 - the type lattice obeys its laws.

Types are read back from a real `mypy.build.build` of a universe module (vlib/c08_universe.py: depth-0/1 universe,
plus a seeded module of deeper random type expressions).  The laws are runtime contracts (icontract postconditions)
on the real `join_types`, `meet_types`, `make_simplified_union`, and checks over recorded answers of the real
`is_subtype` / `is_proper_subtype` (vlib/tasks/c08_lattice.py):

  P1  depth-1 universe, ALL ordered pairs: reflexivity, proper => subtype, join upper bound (both sides), meet lower
      bound (both sides), simplified union == plain union ([s,t]); every answer (incl. 8 flag variants of the two
      subtype predicates) is taken (i) with the caches as the preceding queries left them, (ii) with caches emptied
      before each query, (iii) by another task walking the pairs in another order; the three must coincide.
  P2  is_subtype matrix over the whole space (depth-1 + deep): transitivity on ALL triples of Any-free types whose two
      premises were observed true (bitset closure over the recorded answers).
  P3  seeded sample of ordered pairs over the whole space (biased to related pairs): same as P1.
  P4  seeded sample of item triples: make_simplified_union on all 6 permutations == plain union.
"""

from __future__ import annotations

import json
import os
from typing import Any, Iterator

from vlib import c08_universe as U
from vlib import common
from vlib.pool import Pool

FN = "vlib.tasks.c08_lattice:"


def _scale() -> float:
    try:
        return float(os.environ.get("VERIF_SCALE", "1"))
    except ValueError:
        return 1.0


def _write_sources(wd: str, n_deep: int, seed_parts: tuple[Any, ...]) -> tuple[str, list[tuple[str, bool]]]:
    src = os.path.join(wd, "src")
    os.makedirs(src, exist_ok=True)
    exprs = U.deep_exprs(common.rng_for("C08", "deep", *seed_parts), n_deep) if n_deep else []
    common.write_files(src, {"u.py": U.universe_source()})
    if exprs:
        common.write_files(src, {"deep.py": U.deep_source(exprs), "deep.json": json.dumps(exprs)})
    return src, exprs


class _Acc:
    """Parent-side accumulation of classified violations: key -> {n, examples}."""

    def __init__(self) -> None:
        self.by_key: dict[str, dict[str, Any]] = {}

    def merge(self, findings: dict[str, Any], stream: str) -> None:
        for key, e in findings.items():
            d = self.by_key.setdefault(key, {"n": 0, "examples": [], "streams": {}})
            d["n"] += e["n"]
            d["streams"][stream] = d["streams"].get(stream, 0) + e["n"]
            for w in e["examples"]:
                if len(d["examples"]) < 3:
                    w = dict(w)
                    w["stream"] = stream
                    d["examples"].append(w)

    def add(self, key: str, witness: dict[str, Any]) -> None:
        d = self.by_key.setdefault(key, {"n": 0, "examples": [], "streams": {}})
        d["n"] += 1
        st = str(witness.get("stream", "parent"))
        d["streams"][st] = d["streams"].get(st, 0) + 1
        if len(d["examples"]) < 3:
            d["examples"].append(witness)


WHAT = {
    "reflexivity": "is_subtype(t, t) is False",
    "proper-implies-subtype": "is_proper_subtype(s, t) is True but is_subtype(s, t) is False",
    "transitivity": "is_subtype(s,t) and is_subtype(t,u) hold but is_subtype(s,u) does not (s, t, u contain no Any)",
    "join-ub": "join_types(s, t) is not a supertype of one of its arguments",
    "meet-lb": "meet_types(s, t) is not a subtype of one of its arguments",
    "union-equiv": "make_simplified_union(items) is not equivalent to the plain UnionType(items)",
    "cache-dependence": "an answer changes with the content of the subtype caches / the order of earlier queries",
    "assumption-stack-not-empty": "type_state assumption stacks are not empty after a top-level query returned",
}


def _source_of(name: str, exprs: list[tuple[str, bool]]) -> str:
    if name.startswith("v_"):
        return U.ATOMS[name[2:]]
    if name.startswith("d_"):
        return exprs[int(name[2:])][0]
    if name.startswith("tv_"):
        return f"annotation of parameter {name} of u.tv_scope"
    if name.startswith("obj_"):
        return f"inferred type of the expression `{name[4:]}` (type object) in u.objs"
    if name.startswith("fin_"):
        return f"inferred type of Final name u.{name}"
    return f"signature of u.{name}"


def run(ctx: common.Ctx) -> None:
    quick = ctx.tier == "quick"
    sc = _scale()
    n_deep, n_pairs, n_triples = (600, 20_000, 20_000) if quick else (5000, 1_000_000, 500_000)
    n_deep, n_pairs, n_triples = max(20, int(n_deep * sc)), max(200, int(n_pairs * sc)), max(100, int(n_triples * sc))
    chunk = 400
    ctx.rule = ("types = annotations/signatures/inferred types read back from a real build.build of the universe module "
                f"({len(U.universe_names())} depth<=1 types: nominal diamond, inv/co/contra/auto-variance generics, TypeVarTuple "
                "generic, protocols (generic, recursive, callback, empty), enums, NamedTuples, TypedDicts (total/non-total/"
                "ReadOnly/generic), literals, fixed+variadic tuples, callables of every argument kind, overloads, type objects, "
                "Type[...], unions, TypeVars (plain/bound/values), ParamSpec, TypeVarTuple, recursive aliases, Final last-known "
                f"values) and of a seeded module of {n_deep} random depth 2-3 type expressions. Non-trivial case = ordered pair "
                "(or item triple) of two different types (answer not decided by identity) on which all laws were evaluated; "
                "distinct by (type id, type id[, type id]).")
    ctx.assumptions += [
        "laws are asserted between fully analysed types of a finished build only; module sources must type-check without error "
        "(a deep expression whose line has an error is dropped)",
        "'contains Any' (guard of transitivity only) = an AnyType anywhere inside, incl. Callable[..., X], bare tuple, and the bare "
        "`type` instance (typing spec: type == type[Any]); classes falling back to Any",
        "strict_optional=True, default Options (is_subtype(options=None)), PYTHONHASHSEED=0",
        "every task empties the subtype caches when it starts, so a verdict never depends on which worker ran it",
        "equality of join/meet/union answers across cache states is equality of str(result)",
    ]
    acc = _Acc()
    with common.workdir("C08") as wd:
        src, exprs = _write_sources(wd, n_deep, (ctx.tier,))
        env = common.base_env(VERIF_POOL_ROOT=wd)
        with Pool(env=env) as pool:
            # --- universe ---------------------------------------------------------------------------------
            (_, r), = pool.map([{"fn": FN + "describe", "args": {"src_dir": src}}], timeout=600)
            if not r.get("ok"):
                raise RuntimeError(f"universe build failed: {r.get('exc')}\n{r.get('tb', '')[-3000:]}")
            desc = r["res"]
            types: list[dict[str, Any] | None] = desc["types"]
            names: list[str] = desc["names"]
            n1 = desc["n1"]
            space = [i for i, t in enumerate(types) if t is not None]
            kinds = {i: types[i]["k"] for i in space}  # type: ignore[index]
            ctx.extra["universe"] = {"depth1_types": n1, "deep_types": len(space) - n1, "deep_dropped": len(types) - len(space),
                                     "contracts": desc["contracts"], "any_free": sum(1 for i in space if not types[i]["any"]),  # type: ignore[index]
                                     "kinds": {k: sum(1 for i in space if kinds[i] == k) for k in sorted(set(kinds.values()))}}
            if len(types) - len(space) > 0.1 * max(1, len(types) - n1):
                ctx.inconc("deep-expressions-rejected-by-mypy", len(types) - len(space))

            def witness_src(w: dict[str, Any]) -> dict[str, Any]:
                w = dict(w)
                if w.get("names"):
                    w["sources"] = {nm: _source_of(nm, exprs) for nm in w["names"]}
                w["universe"] = "vlib/c08_universe.py (module u); python_version 3.12"
                return w

            def consume_pairs(t: dict[str, Any], res: dict[str, Any], stream: str, pairs: list[list[int]]) -> None:
                ctx.count(res["oracle"])
                acc.merge(res["findings"], stream)
                for cd in res["cachediff"]:
                    i, j = cd["pair"]
                    key = f"cache-dependence:{cd['components'][0]}:{_kf(kinds[i])}x{_kf(kinds[j])}"
                    acc.add(key, {"law": "cache-dependence", "mode": "warm sequence vs caches emptied before each query",
                                  "names": [names[i], names[j]], "types": [types[i]["s"], types[j]["s"]],  # type: ignore[index]
                                  "components": cd["components"], "warm": cd["warm"], "cold": cd["cold"],
                                  "task": {k: v for k, v in t["args"].items() if k != "pairs"}, "stream": stream,
                                  "n_pairs_in_sequence": len(pairs)})
                if t.get("_primary"):
                    for (i, j), a in zip(pairs, res["ans"]):
                        if a is None:
                            continue
                        ctx.cell(f"{kinds[i]}x{kinds[j]}")
                        if i != j and types[i]["s"] != types[j]["s"]:  # type: ignore[index]
                            ctx.nontriv(i, j)

            def bad(t: dict[str, Any], r: dict[str, Any]) -> bool:
                if r.get("ok"):
                    return False
                why = "timeout" if r.get("timeout") else "died" if r.get("died") else "exc:" + str(r.get("exc"))[:80]
                ctx.inconc(f"{t['fn'].split(':')[1]}:{why}")
                if r.get("tb"):
                    ctx.extra.setdefault("runner_errors", []).append(r["tb"][-1500:])
                return True

            # a few written-out cases for the evidence file
            rs = common.rng_for("C08", "samples")
            nm = {n: i for i, n in enumerate(names)}
            fixed = [[nm["v_D"], nm["v_B_or_C"]], [nm["v_Co_B"], nm["v_GenP_A"]], [nm["v_tuple_B_B"], nm["v_tuple_A_var"]],
                     [nm["v_Lit_R"], nm["v_Color"]], [nm["v_TD2"], nm["v_TD1"]], [nm["f_def"], nm["v_call_int_str"]]]
            (_, r), = pool.map([{"fn": FN + "show_pairs", "args": {"src_dir": src, "pairs": fixed + [[rs.choice(space), rs.choice(space)] for _ in range(2)]}}], timeout=600)
            for smp in (r.get("res") or [])[:8]:
                ctx.sample(smp)

            # --- P1: depth-1 universe, all ordered pairs, two walks ------------------------------------------
            d1 = list(range(n1))
            rows_per = 6
            tasks: list[dict[str, Any]] = []
            for k in range(0, n1, rows_per):
                rows = d1[k:k + rows_per]
                tasks.append({"fn": FN + "eval_pairs", "args": {"src_dir": src, "rows": rows, "cols": d1, "refl": True},
                              "_primary": True, "_walk": "rows"})
                tasks.append({"fn": FN + "eval_pairs", "_walk": "cols",
                              "args": {"src_dir": src, "rows": rows, "cols": d1, "by_cols": True, "cold": False,
                                       "order_seed": 1 + k + 1000 * ctx.seed}})
            ans_a: dict[tuple[int, int], str] = {}
            ans_b: dict[tuple[int, int], str] = {}
            for t, r in pool.imap(tasks, timeout=900):
                if bad(t, r):
                    continue
                res = r["res"]
                consume_pairs(t, res, "P1:depth1-exhaustive", res["pairs"])
                tgt = ans_a if t["_walk"] == "rows" else ans_b
                for (i, j), a in zip(res["pairs"], res["ans"]):
                    if a is not None:
                        tgt[(i, j)] = a
            complete = len(ans_a) == n1 * n1 and len(ans_b) == n1 * n1
            ctx.extra["P1"] = {"pairs": len(ans_a), "of": n1 * n1, "second_walk_pairs": len(ans_b)}
            for pr, a in ans_a.items():
                b = ans_b.get(pr)
                ctx.count()
                if b is not None and a != b:
                    i, j = pr
                    from vlib.tasks.c08_lattice import diff_components
                    comps = diff_components(a, b)
                    acc.add(f"cache-dependence:{comps[0]}:{_kf(kinds[i])}x{_kf(kinds[j])}",
                            {"law": "cache-dependence", "mode": "row-major walk vs shuffled column walk in another task",
                             "names": [names[i], names[j]], "types": [types[i]["s"], types[j]["s"]],  # type: ignore[index]
                             "components": comps, "walk_rows": a, "walk_cols": b, "stream": "P1"})
            # transitivity on the depth-1 universe from the recorded answers (exhaustive when P1 is complete)
            sub_d1 = {i: 0 for i in d1}
            for (i, j), a in ans_a.items():
                if a[0] == "1":
                    sub_d1[i] |= 1 << j
            # the depth-1 universe is enumerated completely; the deeper space is sampled, so ctx.exhaustive stays unset
            ctx.extra["P1"]["all_ordered_pairs_of_depth1_universe_evaluated"] = bool(complete)
            # chains of the recorded is_proper_subtype answers that do not close (s<t, t<u, not s<u): not a law of the
            # property by themselves, but exactly the item triples on which union simplification can lose an item
            psub_d1 = {i: 0 for i in d1}
            for (i, j), a in ans_a.items():
                if a[1] == "1" and i != j:
                    psub_d1[i] |= 1 << j
            chain_triples: list[list[int]] = []
            for s_ in d1:
                x = psub_d1[s_]
                while x:
                    b = x & -x
                    x ^= b
                    t_ = b.bit_length() - 1
                    y = psub_d1[t_] & ~psub_d1[s_] & ~(1 << s_)
                    while y:
                        bb = y & -y
                        y ^= bb
                        chain_triples.append([s_, t_, bb.bit_length() - 1])
            ctx.extra["P4_chain_triples_from_recorded_answers"] = len(chain_triples)
            chain_triples = chain_triples[::max(1, len(chain_triples) // 4000)][:4000]

            # --- P2: subtype matrix over the whole space, transitivity over all triples -------------------------
            rows_per = max(4, min(40, len(space) // (4 * common.NCPU) or 4))
            mt = [{"fn": FN + "sub_rows", "args": {"src_dir": src, "rows": space[k:k + rows_per], "space": space}}
                  for k in range(0, len(space), rows_per)]
            sup: dict[int, int] = {}
            for t, r in pool.imap(mt, timeout=1800):
                if bad(t, r):
                    continue
                for k, v in r["res"]["rows"].items():
                    sup[int(k)] = int(v, 16)
                ctx.extra["P2_queries"] = ctx.extra.get("P2_queries", 0) + r["res"]["queries"]
            pos = {i: k for k, i in enumerate(space)}
            free = 0
            for i in space:
                if not types[i]["any"] and i in sup:  # type: ignore[index]
                    free |= 1 << pos[i]
            trans: dict[tuple[str, str, str], list[list[int]]] = {}
            n_prem = 0
            n_bad = 0
            for s in space:
                if s not in sup or not (free >> pos[s]) & 1:
                    continue
                ss = sup[s] & free
                x = ss & ~(1 << pos[s])
                while x:
                    b = x & -x
                    x ^= b
                    t_ = space[b.bit_length() - 1]
                    st = sup[t_] & free
                    n_prem += bin(st).count("1")
                    badbits = st & ~ss
                    while badbits:
                        bb = badbits & -badbits
                        badbits ^= bb
                        u_ = space[bb.bit_length() - 1]
                        n_bad += 1
                        grp = trans.setdefault((kinds[s], kinds[t_], kinds[u_]), [])
                        if len(grp) < 4000:
                            grp.append([s, t_, u_])
            ctx.count(n_prem)
            ctx.extra["P2"] = {"space": len(space), "matrix_rows": len(sup), "triples_with_both_premises_true": n_prem,
                               "violating_triples": n_bad, "raw_kind_groups": len(trans)}
            ctx.cell("transitivity:triples-with-true-premises", n_prem)
            # reflexivity over the whole space, from the matrix diagonal
            for i in space:
                if i in sup:
                    ctx.count()
                    if not (sup[i] >> pos[i]) & 1:
                        acc.add(f"reflexivity:{_kf(kinds[i])}", witness_src({"law": "reflexivity", "names": [names[i]],
                                                                               "types": [types[i]["s"]]}))  # type: ignore[index]
            # P1's own is_subtype answers must equal the matrix (another task, another order)
            for i in d1:
                if i in sup:
                    ctx.count()
                    m = sum(((sup[i] >> pos[j]) & 1) << j for j in d1)
                    if complete and m != sub_d1[i]:
                        j = (m ^ sub_d1[i]).bit_length() - 1
                        acc.add(f"cache-dependence:is_subtype:{_kf(kinds[i])}x{_kf(kinds[j])}",
                                {"law": "cache-dependence", "mode": "full-law walk vs subtype-only matrix task",
                                 "names": [names[i], names[j]], "types": [types[i]["s"], types[j]["s"]],  # type: ignore[index]
                                 "P1_answer": bool((sub_d1[i] >> j) & 1), "matrix_answer": bool((m >> j) & 1)})
            # classify violating triples in workers (fresh evaluation, shrinking): all of them up to a cap per raw group
            cap = 40 if quick else 600
            et: list[dict[str, Any]] = []
            skipped = 0
            for g, cases in sorted(trans.items()):
                step = max(1, len(cases) // cap)
                pick = cases[::step][:cap]
                # triples inside the depth-1 universe first (they do not depend on the seed), all of them
                inner = [c for c in cases if max(c) < n1][:400]
                pick = inner + [c for c in pick if max(c) >= n1]
                for tag, sel in (("P2:transitivity(depth1 universe)", inner), ("P2:transitivity(with deep types)", pick[len(inner):])):
                    for k in range(0, len(sel), 20):
                        et.append({"fn": FN + "explain_many", "_stream": tag,
                                   "args": {"src_dir": src, "law": "transitivity", "cases": sel[k:k + 20]}})
            skipped = n_bad - sum(len(t["args"]["cases"]) for t in et)
            ctx.extra["P2"]["violating_triples_not_individually_classified"] = skipped
            for t, r in pool.imap(et, timeout=900):
                if bad(t, r):
                    continue
                acc.merge(r["res"]["findings"], t["_stream"])
                if r["res"]["not_confirmed"]:
                    # recorded answers said violated, a fresh evaluation says not: the answers depend on history
                    acc.add("cache-dependence:is_subtype:transitivity-not-reproducible",
                            {"law": "cache-dependence", "cases": t["args"]["cases"], "n": r["res"]["not_confirmed"]})

            # --- P3: sampled pairs over the whole space (two orders) ----------------------------------------------
            rng = common.rng_for("C08", "pairs", ctx.tier)
            sup_lists: dict[int, list[int]] = {}

            def related(s: int) -> int | None:
                if s not in sup_lists:
                    if len(sup_lists) > 3000:
                        sup_lists.clear()
                    bits = sup.get(s, 0) & ~(1 << pos[s])
                    lst = []
                    while bits:
                        b = bits & -bits
                        bits ^= b
                        lst.append(space[b.bit_length() - 1])
                    sup_lists[s] = lst
                lst = sup_lists[s]
                return rng.choice(lst) if lst else None

            by_kind: dict[str, list[int]] = {}
            for i in space:
                by_kind.setdefault(kinds[i], []).append(i)

            def gen_pair() -> list[int]:
                s = rng.choice(space)
                x = rng.random()
                if x < 0.4:
                    t_ = related(s)
                    if t_ is not None:
                        return [s, t_] if rng.random() < 0.5 else [t_, s]
                if x < 0.6:
                    return [s, rng.choice(by_kind[kinds[s]])]
                return [s, rng.choice(space)]

            def pair_tasks() -> Iterator[dict[str, Any]]:
                made = 0
                k = 0
                while made < n_pairs:
                    pairs = [gen_pair() for _ in range(min(chunk, n_pairs - made))]
                    made += len(pairs)
                    k += 1
                    yield {"fn": FN + "eval_pairs", "args": {"src_dir": src, "pairs": pairs}, "_primary": True, "_chunk": k}
                    yield {"fn": FN + "eval_pairs", "_chunk": k,
                           "args": {"src_dir": src, "pairs": pairs, "cold": False, "order_seed": 7 + k + 1000 * ctx.seed}}

            pending: dict[int, tuple[list[list[int]], list[Any]]] = {}
            n_cmp = 0
            for t, r in pool.imap(pair_tasks(), timeout=1800):
                if bad(t, r):
                    pending.pop(t["_chunk"], None)
                    continue
                res = r["res"]
                pairs = t["args"]["pairs"]
                consume_pairs(t, res, "P3:sampled-pairs", pairs)
                other = pending.pop(t["_chunk"], None)
                if other is None:
                    pending[t["_chunk"]] = (pairs, res["ans"])
                    continue
                for (i, j), a, b in zip(pairs, res["ans"], other[1]):
                    if a is None or b is None:
                        continue
                    n_cmp += 1
                    if a != b:
                        from vlib.tasks.c08_lattice import diff_components
                        comps = diff_components(a, b)
                        acc.add(f"cache-dependence:{comps[0]}:{_kf(kinds[i])}x{_kf(kinds[j])}",
                                {"law": "cache-dependence", "mode": "same pairs, two query orders, two tasks",
                                 "names": [names[i], names[j]], "types": [types[i]["s"], types[j]["s"]],  # type: ignore[index]
                                 "sources": {names[i]: _source_of(names[i], exprs), names[j]: _source_of(names[j], exprs)},
                                 "components": comps, "order1": a, "order2": b, "stream": "P3"})
            ctx.count(n_cmp)
            ctx.extra["P3"] = {"pairs": n_pairs, "cross_order_comparisons": n_cmp}

            # --- P4: union permutations on sampled triples -------------------------------------------------------
            rng4 = common.rng_for("C08", "triples", ctx.tier)

            def triple_tasks() -> Iterator[dict[str, Any]]:
                for k in range(0, len(chain_triples), chunk):
                    yield {"fn": FN + "eval_triples", "args": {"src_dir": src, "triples": chain_triples[k:k + chunk]}}
                made = 0
                while made < n_triples:
                    trs = []
                    for _ in range(min(chunk, n_triples - made)):
                        s = rng4.choice(space)
                        t_ = related(s) if rng4.random() < 0.5 else None
                        trs.append([s, t_ if t_ is not None else rng4.choice(space), rng4.choice(space)])
                    made += len(trs)
                    yield {"fn": FN + "eval_triples", "args": {"src_dir": src, "triples": trs}}

            n_tr = 0
            sens = 0
            u3: set[tuple[str, ...]] = set()
            for t, r in pool.imap(triple_tasks(), timeout=1800):
                if bad(t, r):
                    continue
                res = r["res"]
                ctx.count(res["oracle"])
                n_tr += res["n"]
                sens += res["order_sensitive_repr"]
                acc.merge(res["findings"], "P4:union-permutations")
                for tr in t["args"]["triples"]:
                    if len({types[i]["s"] for i in tr if types[i]}) == 3:  # type: ignore[index]
                        ctx.nontriv("u3", *tr)
                    u3.add(tuple(sorted(_kf(kinds[i]) for i in tr)))
            ctx.extra["P4"] = {"triples": n_tr, "permutations": 6 * n_tr, "distinct_kind_triples": len(u3),
                               "triples_whose_simplified_repr_depends_on_item_order (not a violation by itself)": sens}

            # --- S: secondary stream (never a verdict): laws on the argument types mypy itself joins/meets/unions while
            #     checking corpus programs -------------------------------------------------------------------------
            n_prog = int((150 if quick else 3000) * sc)
            if n_prog and not os.environ.get("VERIF_C08_NOSTREAM"):
                from checks.c20 import clean_flags
                from vlib import corpus
                cases = [c for c in corpus.load(["check-*.test"]) if not corpus.uses_fixture_only_features(c) and not c.cmd]
                common.rng_for("C08", "corpus").shuffle(cases)
                st = [{"fn": "vlib.tasks.c08_stream:corpus_laws", "args": {"files": c.all_files(), "flags": clean_flags(c.flags)},
                       "_case": c.id} for c in cases[:n_prog]]
                sec: dict[str, Any] = {"programs": 0, "recorded_calls": 0, "clean_distinct_argument_tuples": 0, "law_evaluations": 0,
                                       "keys": {}, "examples": {}}
                for t, r in pool.imap(st, timeout=300):
                    if not r.get("ok") or r["res"].get("skipped"):
                        sec["skipped"] = sec.get("skipped", 0) + 1
                        continue
                    res = r["res"]
                    sec["programs"] += 1
                    sec["recorded_calls"] += res["recorded"]
                    sec["clean_distinct_argument_tuples"] += res["clean_distinct"]
                    sec["law_evaluations"] += res["law_evaluations"]
                    for key, e in res["findings"].items():
                        sec["keys"][key] = sec["keys"].get(key, 0) + e["n"]
                        if key not in sec["examples"] and e["examples"]:
                            sec["examples"][key] = {"case": t["_case"], **e["examples"][0]}
                sec["keys_not_seen_by_primary_streams"] = sorted(set(sec["keys"]) - set(acc.by_key))
                ctx.extra["secondary_stream_corpus (not a verdict)"] = sec

    # --- verdicts: one witness per mechanism key first, so that every key is written out ----------------------------
    k2 = len({k for k in ctx.cells if not k.startswith(("union3:", "transitivity:"))})
    nk = len(ctx.extra["universe"]["kinds"])
    ctx.extra["kind_cells"] = {"hit": k2, "possible": nk * nk}
    ctx.max_reported = max(ctx.max_reported, len(acc.by_key) + 5)
    for rnd in range(3):
        for key in sorted(acc.by_key):
            e = acc.by_key[key]
            if rnd < len(e["examples"]):
                w = dict(e["examples"][rnd])
                if w.get("names"):
                    w["sources"] = {nm: _source_of(nm, exprs) for nm in w["names"]}
                w["universe"] = "module u = vlib/c08_universe.py:universe_source(); python_version 3.12; default Options"
                w["occurrences_this_run"] = e["n"]
                fam = key.split(":")[0]
                ctx.violation(key, f"{WHAT.get(fam, fam)} [{_one_line(w)}]", w)
    ctx.extra["violations_by_key"] = {k: e["n"] for k, e in sorted(acc.by_key.items())}
    ctx.extra["violations_by_key_and_stream"] = {k: e["streams"] for k, e in sorted(acc.by_key.items())}
    ctx.floor_nontrivial = int((n1 * n1 - n1) * 0.5 + n_pairs * 0.25 + n_triples * 0.25)
    ctx.floor_evaluations = int((n1 * n1 * 12 + n_pairs * 12 + n_triples * 6) * 0.5)


def _kf(k: str) -> str:
    return "Callable" if k in ("Callable...", "CallableP", "GenericCallable") else k


def _one_line(w: dict[str, Any]) -> str:
    ts = w.get("min_types") or w.get("types") or []
    obs = w.get("min_observed") or w.get("observed") or {k: w[k] for k in ("components", "warm", "cold") if k in w}
    return (" ; ".join(str(t) for t in ts) + " => " + json.dumps(obs, default=str))[:400]


def replay(ctx: common.Ctx, rep: dict[str, Any]) -> int:
    """Re-execute one witness against the current tree: rebuild the universe (plus the deep expressions the witness
    names), re-evaluate the law on the same types with empty caches. Returns 1 when the law still fails."""
    w = rep["witness"]
    law = w.get("law")
    names = w.get("names") or []
    if law in (None, "cache-dependence", "assumption-stack-not-empty") or not names:
        print(json.dumps(rep, indent=1, default=str)[:6000])
        print("(history-dependent witness: re-run the tier with the same VERIF_SEED to re-observe it)")
        return 0
    deep = [n for n in names if n.startswith("d_")]
    exprs = [(w["sources"][n], True) for n in dict.fromkeys(deep)]  # tv=True: every expression goes into deep_scope
    with common.workdir("C08-replay") as wd:
        src = os.path.join(wd, "src")
        os.makedirs(src)
        common.write_files(src, {"u.py": U.universe_source()})
        if exprs:
            common.write_files(src, {"deep.py": U.deep_source(exprs), "deep.json": json.dumps(exprs)})
        with Pool(n=1, env=common.base_env(VERIF_POOL_ROOT=wd)) as pool:
            (_, r), = pool.map([{"fn": FN + "describe", "args": {"src_dir": src}}], timeout=600)
            if not r.get("ok"):
                print("replay: universe build failed:", r.get("exc"))
                return 2
            all_names = r["res"]["names"]
            remap = {n: f"d_{k}" for k, n in enumerate(dict.fromkeys(deep))}
            ids = [all_names.index(remap.get(n, n)) for n in names]
            (_, r), = pool.map([{"fn": FN + "explain", "args": {"src_dir": src, "law": law, "ids": ids}}], timeout=600)
    if not r.get("ok"):
        print("replay: evaluation failed:", r.get("exc"), r.get("tb", "")[-2000:])
        return 2
    e = r["res"]
    print(json.dumps({k: e.get(k) for k in ("law", "types", "kinds", "fails_in_isolation", "observed", "min_law", "min_types",
                                              "min_observed", "key")}, indent=1, default=str))
    print("REPRODUCED" if e["fails_in_isolation"] else "not reproduced on the current tree")
    return 1 if e["fails_in_isolation"] else 0
