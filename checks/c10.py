"""C10 - results are deterministic and independent of irrelevant context.

(a) fresh processes under different PYTHONHASHSEEDs: stdout byte-identical, cache records identical
    (data records by bytes, meta records field-wise minus time fields), both formats;
(b) cycle-free programs: the SET of diagnostics is the same for every order of the file arguments;
(c) a probe build preceded by unrelated builds (and a daemon session) in the same interpreter equals the
    same probe in a brand-new interpreter (output and cache records)."""

from __future__ import annotations

import itertools
import os
from typing import Any, Iterator

from vlib import common, corpus, diag, histgen, witnesses
from vlib.pool import Pool

RICH = '''\
from typing import Union, overload, Protocol, Optional, Literal, TypeVar, Generic, Dict, Set, List
import enum
class A: ...
class B(A): ...
class C(A): ...
class D(B, C): ...
class P1(Protocol):
    def a(self) -> int: ...
    def b(self) -> str: ...
    def c(self) -> bytes: ...
class P2(P1, Protocol):
    def d(self) -> float: ...
class Impl:
    def a(self) -> str: ...
    def b(self) -> int: ...
    def c(self) -> bytes: ...
def need(p: P2) -> None: ...
need(Impl())
U = Union[int, str, bytes, float, None, A, B, C, D, List[int], Dict[str, int], Set[bytes]]
def f(x: U) -> None:
    reveal_type(x)
    x.nope
    if isinstance(x, (int, str)):
        reveal_type(x)
    elif isinstance(x, (B, C)):
        reveal_type(x)
@overload
def g(x: int) -> int: ...
@overload
def g(x: str) -> str: ...
@overload
def g(x: bytes) -> bytes: ...
def g(x): return x
g(1.5)
g(None)
class E(enum.Enum):
    X = 1
    Y = 2
    Z = 3
def h(e: E, l: Literal["a", "b", "c"]) -> int:
    if e is E.X:
        return 1
    reveal_type(e)
    if l == "a":
        return 2
    reveal_type(l)
for i in range(3):
    v = {1: A(), 2: B(), 3: C(), 4: D()}
    reveal_type(v)
    w = {A(), B(), C()}
    reveal_type(w)
    z = [1, "a", b"b", None, 1.5]
    reveal_type(z)
T = TypeVar("T", int, str, bytes)
def k(a: T, b: T) -> T:
    return a + b + 1
'''


def programs(ctx: common.Ctx, n: int) -> list[dict[str, Any]]:
    out = [{"files": {"main.py": RICH}, "targets": ["main.py"], "flags": ["--warn-unreachable", "--enable-error-code", "redundant-expr"], "id": "rich"},
           {"files": witnesses.KITCHEN["files"], "targets": ["main.py"], "flags": ["--strict"], "id": "kitchen"}]
    ring = {f"c{i}.py": f"import c{(i + 1) % 5}\nimport c{(i + 2) % 5}\nx{i}: int = 'ring{i}'\ndef f{i}() -> str:\n    return c{(i + 1) % 5}.x{(i + 1) % 5}\n" for i in range(5)}
    ring["main.py"] = "import c0\nreveal_type(c0.f0())\n"
    out.append({"files": ring, "targets": ["main.py"], "flags": [], "id": "ring"})
    miss = "import tomlib\nimport asynchatt\nimport distutil\nimport zoneinfoo\nimport graphlibb\nimport tomllibb\nimport imp_\nimport asyncore_\nx: int = ''\n"
    out.append({"files": {"main.py": miss}, "targets": ["main.py"], "flags": ["--python-version", "3.12"], "id": "misspelled312"})
    out.append({"files": {"main.py": miss}, "targets": ["main.py"], "flags": ["--python-version", "3.10"], "id": "misspelled310"})
    # suggestion sites ("did you mean", "maybe ...?") with MANY equally similar candidates: the ranking must not fall back on
    # set/dict iteration order (import-from, module attribute, bare name, instance attribute, keyword argument, TypedDict key)
    names = [f"some_long_value_{i:02d}" for i in range(80)]
    many = "".join(f"{nm}: int = {i}\n" for i, nm in enumerate(names))
    many += "class Holder:\n" + "".join(f"    attr_long_name_{i:02d}: int = {i}\n" for i in range(70))
    many += "def kw(*, " + ", ".join(f"param_long_name_{i:02d}: int = 0" for i in range(60)) + ") -> None: ...\n"
    many += "from typing import TypedDict\nclass TD(TypedDict, total=False):\n" + "".join(f"    key_long_name_{i:02d}: int\n" for i in range(60))
    use = ("import m\nfrom m import some_long_value_xx\nfrom m import Holder, kw, TD\nprint(m.some_long_value_yy)\n"
           "Holder().attr_long_name_xx\nkw(param_long_name_xx=1)\ntd: TD = {'key_long_name_xx': 1}\n"
           "from m import *\nprint(some_long_value_zz)\n")
    out.append({"files": {"m.py": many, "main.py": use}, "targets": ["main.py"], "flags": [], "id": "suggestion-ties"})
    k = 0
    while len(out) < n:
        h = histgen.history(("C10", ctx.seed, k), n_steps=3, n_modules=5 + k % 4)
        out.append({"files": h["versions"][-1], "targets": ["main.py"], "flags": [] if k % 2 else ["--strict"], "id": f"hist{k}"})
        k += 1
    return out


def cache_diff(a: dict[str, Any], b: dict[str, Any]) -> list[str]:
    d = []
    for k in sorted(set(a) | set(b)):
        if k.startswith("@") or k.endswith("missing_stubs") or "plugins_snapshot" in k:
            if a.get(k) != b.get(k):
                d.append(k)
            continue
        if a.get(k) != b.get(k):
            d.append(k)
    return d


def run(ctx: common.Ctx) -> None:
    quick = ctx.tier == "quick"
    scale = float(os.environ.get("VERIF_SCALE", "1"))
    n_prog = max(6, int((12 if quick else 40) * scale))
    seeds = ["0", "1", "2", "3"] if quick else ["0", "1", "2", "3", "17", "1234", "4294967295", "random"]
    n_perm = max(4, int((60 if quick else 600) * scale))
    n_hist = max(4, int((24 if quick else 240) * scale))
    ctx.rule = ("(a) program x PYTHONHASHSEED x format in fresh processes incl. the whole typeshed closure; (b) cycle-free histgen "
                "projects x permutations of the file arguments; (c) probe build after a random prelude of unrelated builds (+ daemon "
                "session) vs a brand-new interpreter; non-trivial = comparison whose output has >=5 diagnostics or whose cache has >=20 records")
    ctx.assumptions += ["filesystem store used for record comparison (sqlite rows hold the same bytes)", "time fields (mtime, data_mtime) excluded from meta comparison"]
    ctx.floor_nontrivial = 6
    ctx.floor_evaluations = 20
    progs = programs(ctx, n_prog)
    with common.workdir("C10") as wd:
        env = common.base_env(VERIF_POOL_ROOT=wd)
        with Pool(env=env) as pool:
            # ---- (a) hash seeds ----------------------------------------------------------------
            def seed_tasks() -> Iterator[dict[str, Any]]:
                for p in progs:
                    for fmt in (("bin", "json") if not quick or p["id"] in ("rich", "kitchen") else ("bin",)):
                        yield {"fn": "vlib.tasks.determinism:seed_group",
                               "args": {"files": p["files"], "flags": p["flags"], "targets": p["targets"], "seeds": seeds, "fmt": fmt},
                               "_p": p["id"], "_fmt": fmt}
            groups: dict[tuple[str, str], dict[str, Any]] = {}
            for t, r in pool.imap(seed_tasks(), timeout=1800):
                if not r.get("ok"):
                    ctx.inconc("seed-run-failed")
                    continue
                groups[(t["_p"], t["_fmt"])] = {hs: v for hs, v in r["res"].items() if v["status"] in (0, 1, 2)}
            for (pid, fmt), by_seed in sorted(groups.items()):
                ref_seed = sorted(by_seed)[0]
                ref = by_seed[ref_seed]
                for s, res in sorted(by_seed.items()):
                    if s == ref_seed:
                        continue
                    ctx.count()
                    ctx.cell(f"a:seed-pairs:{fmt}")
                    nrec = len(res["cache"])
                    if len(res["out"].splitlines()) >= 5 or nrec >= 20:
                        ctx.nontriv("a", pid, fmt, s)
                    if res["out"] != ref["out"] or res["status"] != ref["status"]:
                        same_set = sorted(res["out"].splitlines()) == sorted(ref["out"].splitlines())
                        ctx.violation("hashseed:stdout-" + ("order" if same_set else "text"), f"stdout differs between PYTHONHASHSEED={ref_seed} and {s} ({pid}, {fmt})",
                                      {"program": pid, "fmt": fmt, "seeds": [ref_seed, s], "a": ref["out"], "b": res["out"]})
                    cd = cache_diff(ref["cache"], res["cache"])
                    if cd:
                        kinds = sorted({("data" if ".data." in k else "meta_ex" if ".meta_ex." in k else "meta" if ".meta." in k else "other") for k in cd})
                        ctx.violation("hashseed:cache-records-differ:" + ",".join(kinds) + ":" + fmt,
                                      f"{len(cd)} cache records differ between PYTHONHASHSEED={ref_seed} and {s} ({pid})",
                                      {"program": pid, "fmt": fmt, "seeds": [ref_seed, s], "records": cd[:20],
                                       "example": {k: [ref["cache"].get(k), res["cache"].get(k)] for k in cd[:2] if ".meta." in k}})
                    ctx.cell("a:records-compared", nrec)
                # warm replay of one cache under different hash seeds
                warm = {hs: v["warm"] for hs, v in by_seed.items() if "warm" in v}
                if len(warm) > 1:
                    w0 = sorted(warm)[0]
                    for hs, w in sorted(warm.items()):
                        if hs == w0:
                            continue
                        ctx.count()
                        ctx.cell(f"a:warm-replay-seed-pairs:{fmt}")
                        if len(w["out"].splitlines()) >= 5:
                            ctx.nontriv("a-warm", pid, fmt, hs)
                        if w["out"] != warm[w0]["out"] or w["status"] != warm[w0]["status"]:
                            same_set = sorted(w["out"].splitlines()) == sorted(warm[w0]["out"].splitlines())
                            ctx.violation("hashseed:warm-replay-stdout-" + ("order" if same_set else "text"),
                                          f"warm run on an identical cache prints differently under PYTHONHASHSEED={w0} and {hs} ({pid}, {fmt})",
                                          {"program": pid, "fmt": fmt, "seeds": [w0, hs], "a": warm[w0]["out"], "b": w["out"]})
                if len(by_seed) > 1:
                    ctx.sample({"a": pid, "fmt": fmt, "seeds": sorted(by_seed), "stdout_lines": len(ref["out"].splitlines()), "cache_records": len(ref["cache"])})

            # ---- (b) argument order ------------------------------------------------------------
            def order_tasks() -> Iterator[dict[str, Any]]:
                made = 0
                k = 0
                while made < n_perm:
                    h = histgen.history(("C10b", ctx.seed, k), n_steps=4, n_modules=3 + k % 4, cycles=False,
                                        ops=histgen.CONTENT_OPS)
                    files = h["versions"][-1]
                    k += 1
                    # cycle-free by construction of the import graph? verify on the text: histgen(cycles=False) only imports later modules
                    names = sorted(f for f in files if f.endswith(".py"))
                    r = common.rng_for("C10b", k)
                    perms = list(itertools.permutations(names)) if len(names) <= 4 else [tuple(r.sample(names, len(names))) for _ in range(6)]
                    r.shuffle(perms)
                    for perm in perms[:6]:
                        made += 1
                        yield {"fn": "vlib.tasks.determinism:order_run", "args": {"files": files, "flags": [], "order": list(perm)},
                               "_k": k, "_order": list(perm)}
            by_prog: dict[int, list[tuple[list[str], dict[str, Any]]]] = {}
            for t, r in pool.imap(order_tasks(), timeout=300):
                if not r.get("ok") or r["res"].get("failed"):
                    ctx.inconc("order-run-failed")
                    continue
                by_prog.setdefault(t["_k"], []).append((t["_order"], r["res"]))
            for k, runs in sorted(by_prog.items()):
                ref_order, ref = runs[0]
                for order, res in runs[1:]:
                    ctx.count()
                    ctx.cell("b:order-pairs")
                    if len(ref["out"].splitlines()) >= 5:
                        ctx.nontriv("b", k, tuple(order))
                    if sorted(diag.split_lines(res["out"])) != sorted(diag.split_lines(ref["out"])) or res["status"] != ref["status"]:
                        sa, sb = set(diag.split_lines(ref["out"])), set(diag.split_lines(res["out"]))
                        from checks.c03 import _codes
                        ctx.violation("argument-order:diagnostic-set-differs:" + ",".join(_codes(list(sa ^ sb))),
                                      f"set of diagnostics depends on the order of file arguments {ref_order} vs {order}",
                                      {"orders": [ref_order, order], "only_first": sorted(sa - sb)[:10], "only_second": sorted(sb - sa)[:10], "hist": k})
            # ---- (c) earlier builds in the same interpreter ------------------------------------------
            def hist_tasks() -> Iterator[dict[str, Any]]:
                for j in range(n_hist):
                    r = common.rng_for("C10c", j)
                    p = progs[j % len(progs)]
                    prelude = []
                    if j % 2 == 0:
                        o = r.choice([x for x in progs if x["id"].startswith("misspelled")] or progs)
                        prelude.append({"files": o["files"], "flags": o["flags"], "targets": o["targets"], "cold": True})
                    for q in range(r.randint(1, 4)):
                        o = r.choice(progs)
                        prelude.append({"files": o["files"], "flags": r.choice([[], ["--strict"], ["--python-version", "3.10"], ["--no-strict-optional"],
                                                                                 ["--disallow-any-generics", "--warn-unreachable"]]),
                                        "targets": o["targets"], "cold": r.random() < 0.5})
                    args = {"files": p["files"], "flags": p["flags"], "targets": p["targets"]}
                    yield {"fn": "vlib.tasks.determinism:after_prelude", "args": {**args, "prelude": prelude, "daemon_prelude": r.random() < 0.3},
                           "_j": j, "_p": p["id"], "_role": "warm-interpreter"}
                for p in progs:
                    yield {"fn": "vlib.tasks.determinism:fresh_probe", "args": {"files": p["files"], "flags": p["flags"], "targets": p["targets"]},
                           "_p": p["id"], "_role": "fresh"}
            fresh: dict[str, dict[str, Any]] = {}
            later: list[tuple[dict[str, Any], dict[str, Any]]] = []
            for t, r in pool.imap(hist_tasks(), timeout=900):
                if not r.get("ok") or r["res"].get("failed"):
                    ctx.inconc("history-run-failed:" + str((r.get("res") or {}).get("failed") or r.get("exc"))[:60])
                    continue
                if t["_role"] == "fresh":
                    fresh[t["_p"]] = r["res"]
                else:
                    later.append((t, r["res"]))
            for t, res in later:
                ref = fresh.get(t["_p"])
                if ref is None:
                    ctx.inconc("no-fresh-reference")
                    continue
                ctx.count()
                ctx.cell("c:history-vs-fresh")
                if len(ref["out"].splitlines()) >= 5 or len(ref["cache"]) >= 20:
                    ctx.nontriv("c", t["_j"])
                if res["out"] != ref["out"] or res["status"] != ref["status"]:
                    ctx.violation("earlier-builds:stdout-differs", f"probe output after {len(t['args']['prelude'])} earlier builds differs from a fresh interpreter ({t['_p']})",
                                  {"task": {k: v for k, v in t.items() if k != 'args'}, "prelude_flags": [p["flags"] for p in t["args"]["prelude"]],
                                   "fresh": ref["out"], "after": res["out"], "state": res.get("global_state_before_probe")})
                cd = [k for k in cache_diff(ref["cache"], res["cache"])]
                if cd:
                    kinds = sorted({("data" if ".data." in k else "meta_ex" if ".meta_ex." in k else "meta" if ".meta." in k else "other") for k in cd})
                    ctx.violation("earlier-builds:cache-records-differ:" + ",".join(kinds),
                                  f"{len(cd)} cache records differ between a probe after earlier builds and a fresh interpreter ({t['_p']})",
                                  {"records": cd[:20], "state": res.get("global_state_before_probe"), "prelude_flags": [p["flags"] for p in t["args"]["prelude"]],
                                   "example": {k: [ref["cache"].get(k), res["cache"].get(k)] for k in cd[:2] if ".meta." in k}})
