"""C19 - generated stubs are valid, self-consistent and faithful.

Cross-tool round trip on every generated module and every stubgen mode (--parse-only, semantic
analysis, --inspect-mode; --include-private / --export-less and the -m / --no-import invocation forms
sampled):
  (a) the stub parses (CPython `ast`);
  (b) mypy checks the stub alone without errors;
  (c) stubtest, importing the runtime module, reports no disagreement;
  (d) every public function/class/method/annotated variable of the source is in the stub with the
      parameter kinds/names/default-presence, kept decorators and the annotations the source spelled.
The tools are the real ones from the repository tree (vlib/tasks/c19_run.py); the verdicts are computed
here from their raw outputs. Preconditions (module imports, sources are clean for mypy) that fail make
the case inconclusive, never a verdict."""

from __future__ import annotations

import ast
import hashlib
import json
import os
import re
from typing import Any, Iterator

from vlib import c19_gen, c19_model as M, common, corpus
from vlib.pool import Pool

MODES = ("po", "sem", "insp")
MODE_NAME = {"po": "parse-only", "sem": "semantic", "insp": "inspect"}
FULL_WITNESS_PER_KEY = 3


def _tasks(ctx: common.Ctx, n_bundles: int, n_corpus: int) -> Iterator[dict[str, Any]]:
    for k in range(n_bundles):
        rng = common.rng_fixed("C19", "bundle", k)
        b = c19_gen.gen_bundle(rng, f"s1b{k}")
        for mode in MODES:
            r = common.rng_fixed("C19", "opts", k, mode)
            flags = [f for f, p in (("--include-private", 0.2), ("--export-less", 0.15)) if r.random() < p]
            style = "files"
            if mode == "insp":
                style = "modules"
            elif mode == "sem":
                style = r.choices(["files", "modules", "noimport"], [0.7, 0.2, 0.1])[0]
            yield {"fn": "vlib.tasks.c19_run:run_bundle",
                   "args": {"files": b["files"], "modules": b["modules"], "mode": mode, "flags": flags, "style": style},
                   "_id": f"gen:{k}", "_stream": "generated"}
    if n_corpus:
        # dataclass_transform inputs of stubgen.test decorate with functions that do not transform anything at run
        # time, so stub and runtime disagree by construction of the input: not usable for the stubtest oracle
        cases = [c for c in corpus.load(["stubgen.test"]) if not c.files and c.main.strip() and not c.cmd
                 and "dataclass_transform" not in c.main
                 # definitions under `if MYPY:` / `if TYPE_CHECKING:` exist only for the type checker: stub and
                 # runtime differ by intention of the input
                 and "MYPY" not in c.main
                 and not re.search(r"if (?:\w+\.)?TYPE_CHECKING:\n\s+(?:def |class |\w+\s*[:=])", c.main)]
        import random
        random.Random("C19-corpus").shuffle(cases)   # the same selection for every seed
        cases = cases[:n_corpus]
        for i in range(0, len(cases), 8):
            chunk = cases[i:i + 8]
            files = {f"c19corpus{i + j}.py": c.main for j, c in enumerate(chunk)}
            mods = [f[:-3] for f in files]
            for mode in MODES:
                yield {"fn": "vlib.tasks.c19_run:run_bundle",
                       "args": {"files": files, "modules": mods, "mode": mode, "flags": [],
                                "style": "modules" if mode == "insp" else "files"},
                       "_id": f"corpus:{i}", "_stream": "corpus", "_names": [c.id for c in chunk]}


def _src_rel(module: str, files: dict[str, str]) -> tuple[str, bool]:
    p = "/".join(module.split("."))
    if p + "/__init__.py" in files:
        return p + "/__init__.py", True
    return p + ".py", False


class Evaluator:
    def __init__(self, ctx: common.Ctx) -> None:
        self.ctx = ctx
        self.per_key: dict[str, int] = {}
        self.examples: dict[str, list[dict[str, Any]]] = {}
        self.found: list[str] = []

    def violate(self, key: str, what: str, wit: dict[str, Any], task: dict[str, Any]) -> None:
        n = self.per_key.get(key, 0)
        self.per_key[key] = n + 1
        w = dict(wit)
        w.update(mode=task["args"]["mode"], flags=task["args"]["flags"], style=task["args"]["style"], case=task["_id"],
                 seed=self.ctx.seed)
        if n < FULL_WITNESS_PER_KEY:
            w["files"] = task["args"]["files"]
            w["modules"] = task["args"]["modules"]
            self.examples.setdefault(key, []).append({k: v for k, v in w.items() if k not in ("files", "modules")})
        self.found.append(key)
        self.ctx.violation(key, what, w)

    def evaluate(self, task: dict[str, Any], res: dict[str, Any], only: str | None = None) -> None:
        ctx = self.ctx
        a = task["args"]
        mode, files, modules = a["mode"], a["files"], a["modules"]
        pre = res["pre"]
        err_files = {ln.split(":", 1)[0] for ln in pre.get("src_errors", [])}
        sg = res["stubgen"]
        failures = dict(sg["batch"].get("failures") or {})
        for pm in sg.get("per_module", {}).values():
            failures.update(pm.get("failures") or {})
        mypy_errs: dict[str, list[dict[str, Any]]] = {}
        mres = res.get("mypy")
        if mres:
            for e in M.parse_mypy(mres["lines"]):
                mypy_errs.setdefault(e["file"], []).append(e)
        st = res.get("stubtest") or {}
        st_errs: dict[str, list[dict[str, Any]]] = {}
        st_refused: set[str] = set()
        st_covered: set[str] = set()
        if st.get("units"):
            outs: list[tuple[list[str], dict[str, Any]]] = []
            if st.get("per_unit"):
                outs = [([u], r) for u, r in st["per_unit"].items()]
            else:
                outs = [(st["units"], st)]
            for units, r in outs:
                members = [m for m in st["covered"] if m.split(".")[0] in units]
                if r.get("timeout") or r.get("status") is None:
                    ctx.inconc("stubtest-watchdog", len(members))
                    continue
                errs, refusal = M.parse_stubtest(r.get("out", ""))
                if refusal:
                    st_refused.update(members)
                    continue
                if "Traceback (most recent call last)" in (r.get("err") or "") or r.get("status") not in (0, 1):
                    from vlib.inproc import classify_exc
                    key = f"stubtest-crash:{MODE_NAME[mode]}:{classify_exc(r.get('err') or '')}"
                    self.violate(key, "stubtest itself failed on a generated stub",
                                 {"units": units, "stderr": (r.get("err") or "")[-3000:],
                                  "stubs": {m: res["stubs"].get(m) for m in members}}, task)
                    continue
                st_covered.update(members)
                for e in errs:
                    mod, path = M.module_of(e["obj"], modules)
                    if mod is not None:
                        e["path"] = path
                        st_errs.setdefault(mod, []).append(e)

        for m in modules:
            if only and m != only:
                continue
            rel, is_pkg = _src_rel(m, files)
            src = files[rel]
            imp = pre.get("import", {}).get(m)
            top = m.split(".")[0]
            unit_files = [f for f in files if f == top + ".py" or f.startswith(top + "/")]
            if not imp or not imp.get("ok"):
                ctx.inconc("precondition:module-does-not-import")
                continue
            if pre.get("src_status") not in (0, 1) or any(f in err_files for f in unit_files):
                ctx.inconc("precondition:source-not-clean-for-mypy")
                continue
            try:
                smodel = M.Model(src, m, is_pkg)
            except SyntaxError:
                ctx.inconc("precondition:source-syntax")
                continue
            defs = smodel.public_defs()
            if len(defs) >= 8 and len(set(defs.values())) >= 4:
                ctx.nontriv(hashlib.sha1(src.encode()).hexdigest(), mode)
            for kind in defs.values():
                ctx.cell(f"{mode}:{kind}")
            ctx.cell(f"modules:{mode}:{a['style']}" + ("".join(":" + f.strip("-") for f in a["flags"])))
            stub = res["stubs"].get(m)
            rt_all0 = imp.get("all")
            base_w = {"module": m, "source": src, "stub": stub}
            keys_here: set[str] = set()

            def once(key: str, what: str, extra: dict[str, Any]) -> None:
                if key not in keys_here:
                    keys_here.add(key)
                    self.violate(key, what, {**base_w, **extra}, task)

            # stub produced at all?
            ctx.count()
            ctx.cell(f"oracle:{mode}:a-parses")
            if m in failures:
                once(f"stubgen-crash:{MODE_NAME[mode]}:{failures[m]['key']}",
                     "stubgen raised while generating the stub of an analysable module (no stub emitted)",
                     {"traceback": failures[m]["tb"][-2500:]})
                continue
            if stub is None:
                b = sg["batch"]
                if b.get("timeout"):
                    ctx.inconc("stubgen-watchdog")
                    ctx.evaluations -= 1
                    continue
                why = "crash:" + b["crash"]["key"] if b.get("crash") else f"exit-{b.get('status')}:" + M.norm_msg((b.get("err") or "").strip().splitlines()[-1] if (b.get("err") or "").strip() else "no-output")
                once(f"stubgen-no-stub:{MODE_NAME[mode]}:{why}", "stubgen produced no stub for the module",
                     {"stubgen": {k: b.get(k) for k in ("status", "err", "out")}, "per_module": sg.get("per_module", {}).get(m)})
                continue
            # (a)
            tree: ast.Module | None
            try:
                tmodel = M.Model(stub, m, is_pkg)
                tree = tmodel.tree
            except SyntaxError as e:
                line = (stub.splitlines()[e.lineno - 1] if e.lineno and e.lineno <= len(stub.splitlines()) else "")
                tok = "def" if line.lstrip().startswith(("def ", "async def ")) else ("class" if line.lstrip().startswith("class ") else
                      ("import" if line.lstrip().startswith(("import ", "from ")) else "statement"))
                once(f"stub-syntax:{MODE_NAME[mode]}:{tok}:{M.norm_msg(e.msg or '')}", "the generated stub is not valid Python syntax",
                     {"error": f"{e.msg} at line {e.lineno}", "line": line})
                continue
            # (b)
            if mres and mres.get("crash"):
                ctx.inconc("foreign:mypy-crash-on-stub(C20)")
                ctx.extra.setdefault("foreign_incidents", []).append({"owner": "C20", "case": task["_id"], "what": mres["crash"]["key"]})
            elif mres and mres.get("status") in (0, 1):
                ctx.count()
                ctx.cell(f"oracle:{mode}:b-typechecks")
                errs_m = mypy_errs.get(res["stub_paths"].get(m, ""), [])
                undefined_lines = {e["line"] for e in errs_m if e["code"] == "name-defined"}
                degraded = set()  # classes whose header names an undefined name (they lose e.g. their type parameters)
                for ln in undefined_lines:
                    pth, nk0 = M.enclosing_top(tree, ln)
                    if nk0 == "class" and pth:
                        degraded.add(pth[-1])
                for e in errs_m:
                    if e["code"] != "name-defined" and e["line"] in undefined_lines:
                        continue  # consequence of the undefined name on the same line
                    tm = re.match(r'"([^"]+)" expects no type arguments', e["msg"])
                    if tm and tm.group(1) in degraded:
                        continue  # consequence of an undefined name in that class's base list
                    path, nk = M.enclosing_top(tree, e["line"])
                    kind = M.coarse_kind(smodel.describe(path[:1])) if path else nk
                    nm = re.search(r'Name "([^"]+)" is not defined', e["msg"])
                    if mode == "insp":
                        key = f"stub-typecheck:inspect:{e['code']}:{M.norm_msg(e['msg'])}"
                    elif nm:
                        key = f"stub-typecheck:{MODE_NAME[mode]}:name-defined:{M.classify_undefined(nm.group(1), smodel, imp.get('all'))}"
                    else:
                        key = f"stub-typecheck:{MODE_NAME[mode]}:{e['code']}:{M.norm_msg(e['msg'])}:{kind}"
                    once(key, "mypy reports an error in the generated stub checked on its own",
                         {"mypy": e["raw"], "stub_line": (stub.splitlines()[e["line"] - 1] if 0 < e["line"] <= len(stub.splitlines()) else ""),
                          "object": ".".join(path)})
            # (c)
            if m in st_covered:
                ctx.count()
                ctx.cell(f"oracle:{mode}:c-stubtest")
                errs_st = st_errs.get(m, [])
                # several "is inconsistent, ..." lines about one object are one signature disagreement:
                # keep the alphabetically first normalised message as its representative
                first_incons: dict[str, str] = {}
                for e in errs_st:
                    nmsg = M.norm_msg(e["msg"])
                    if nmsg.startswith("is inconsistent, "):
                        if e["obj"] not in first_incons or nmsg < first_incons[e["obj"]]:
                            first_incons[e["obj"]] = nmsg
                for e in errs_st:
                    if M.norm_msg(e["msg"]).startswith("is inconsistent, ") and first_incons.get(e["obj"]) != M.norm_msg(e["msg"]):
                        continue
                    kind = M.coarse_kind(smodel.describe(e["path"]).replace("conditional-", ""))
                    last = e["path"][-1] if e["path"] else ""
                    if len(e["path"]) == 1 and e["msg"].strip() == "is not present at runtime" and last in smodel.top.vars \
                            and all(v.ann is not None and v.value is None for v in smodel.top.vars[last]):
                        ctx.cell("guard:declared-only-variable-has-no-runtime-object")
                        continue  # `x: T` without a value: the source itself declares what does not exist at run time
                    if last.startswith("__") and last.endswith("__"):
                        if last in ("__lt__", "__le__", "__gt__", "__ge__"):
                            last = "__<ordering>__"
                        elif last.startswith("__attrs_"):
                            last = "__attrs_*__"
                        elif m.split(".")[-1] in last:
                            last = "__<name-with-module>__"
                        kind = kind.split(".")[0] + "." + last if len(e["path"]) > 1 else last
                    elif len(e["path"]) == 1 and e["msg"].strip() == "is not present in stub":
                        in_all = rt_all0 is not None and last in rt_all0
                        if last.startswith("_") and in_all:
                            kind = "private-name-listed-in-__all__"
                        elif kind == "imported-name":
                            kind = "imported-name" + ("-listed-in-__all__" if in_all else "")
                    if e["msg"].strip() == "is not a recognised type alias":
                        kind = "alias"
                    key = f"stubtest:inspect:{M.norm_msg(e['msg'])}" if mode == "insp" else f"stubtest:{MODE_NAME[mode]}:{kind}:{M.norm_msg(e['msg'])}"
                    if kind.endswith("pep695-alias") and mode != "insp":
                        key = f"stubtest:{MODE_NAME[mode]}:pep695-alias:runtime TypeAliasType object is not understood"
                    once(key,
                         "stubtest reports a disagreement between the generated stub and the imported module",
                         {"stubtest": f"error: {e['obj']} {e['msg']}\n{e['body']}", "object": e["obj"]})
            elif m in st_refused:
                ctx.inconc("stubtest-refused-to-run(build errors outside (b))")
            else:
                ctx.inconc("stubtest-not-run(stub or a unit sibling has type errors)")
            # (d)
            ctx.count()
            ctx.cell(f"oracle:{mode}:d-structure")
            rt_all = imp.get("all")
            issues, cells = M.compare(smodel, tmodel, rt_all, "--include-private" in a["flags"], mode == "insp")
            for c, n in cells.items():
                ctx.cell(f"d:{mode}:{c}", n)
            for it in issues:
                once(it.key(MODE_NAME[mode], mode == "insp"),
                     "a public definition of the source is missing from the stub or its signature/annotation differs",
                     {"object": it.path, "detail": it.detail, "runtime_all": rt_all})
            if not keys_here and len(defs) >= 8:
                ctx.sample({"module": m, "mode": mode, "flags": a["flags"], "style": a["style"], "public_defs": len(defs),
                            "kinds": sorted(set(defs.values())), "stub_lines": len(stub.splitlines()),
                            "oracles": ["a", "b"] + (["c"] if m in st_covered else []) + ["d"], "verdict": "all silent"})


def run(ctx: common.Ctx) -> None:
    quick = ctx.tier == "quick"
    scale = float(os.environ.get("VERIF_SCALE", "1"))
    n_bundles = max(1, int((20 if quick else 80) * scale))
    n_corpus = int((40 if quick else 150) * scale)
    ctx.rule = ("generated bundle = 4 standalone modules + 1 package (core/util/sub.leaf, relative imports, re-exports); each "
                "module mixes 8-16 definitions drawn from 20 feature emitters (vlib/c19_gen.py); plus importable inputs of "
                "stubgen.test. A (module, mode) case is non-trivial when the module imports, is clean for mypy and has >= 8 "
                "public top-level definitions of >= 4 kinds; distinct by (source hash, mode).")
    ctx.assumptions += [
        "stubgen is always run with --ignore-errors plus a recording wrapper around generate_guarded, so that one failing "
        "module does not hide the others (the recorded exception is the verdict for that module)",
        "trusted base: CPython ast/import machinery, the ast_serialize parser; stubtest is both oracle and code under test",
        "(d) demands presence only for functions, classes, methods and annotated variables (not unannotated variables or "
        "aliases), and annotation equality only where the source spelled an annotation",
        "watchdog 300 s per tool run; a timeout is inconclusive",
    ]
    only_stream = os.environ.get("VERIF_C19_STREAM")   # triage aid: "generated" | "corpus"
    if only_stream == "corpus":
        n_bundles = 0
    elif only_stream == "generated":
        n_corpus = 0
    ev = Evaluator(ctx)
    with common.workdir("C19") as wd:
        with Pool(env=common.base_env(VERIF_POOL_ROOT=wd)) as pool:
            for t, r in pool.imap(_tasks(ctx, n_bundles, n_corpus), timeout=1500):
                if r.get("timeout") or r.get("died"):
                    ctx.inconc("task-watchdog" if r.get("timeout") else "worker-died", len(t["args"]["modules"]))
                    continue
                if not r.get("ok"):
                    ctx.inconc("harness-exception:" + str(r.get("exc"))[:80], len(t["args"]["modules"]))
                    ctx.extra.setdefault("harness_tracebacks", []).append(str(r.get("tb"))[-1500:])
                    continue
                ev.evaluate(t, r["res"])
                ctx.cell(f"tasks:{t['_stream']}")
    ctx.extra["harness_tracebacks"] = ctx.extra.get("harness_tracebacks", [])[:3]
    per_mode = n_bundles * 9
    ctx.floor_nontrivial = int(per_mode * 3 * 0.2)
    ctx.floor_evaluations = int(per_mode * 3 * 1.2)
    dump = os.environ.get("VERIF_C19_DUMP")
    if dump:
        with open(dump, "w") as f:
            json.dump({k: {"n": ev.per_key[k], "examples": ev.examples.get(k, [])} for k in sorted(ev.per_key)}, f, indent=1, default=str)


def replay(ctx: common.Ctx, rep: dict[str, Any]) -> int:
    w = rep["witness"]
    if "files" not in w:
        print("compact witness (no files): regenerate with the same seed; case =", w.get("case"))
        print(json.dumps({k: v for k, v in w.items() if k not in ("source", "stub")}, indent=1)[:3000])
        return 0
    task = {"fn": "vlib.tasks.c19_run:run_bundle",
            "args": {"files": w["files"], "modules": w["modules"], "mode": w["mode"], "flags": w["flags"], "style": w["style"]},
            "_id": w.get("case", "replay"), "_stream": "replay"}
    ev = Evaluator(ctx)
    with common.workdir("C19r") as wd:
        with Pool(n=1, env=common.base_env(VERIF_POOL_ROOT=wd)) as pool:
            for t, r in pool.imap(iter([task]), timeout=1500):
                if not r.get("ok"):
                    print("replay did not complete:", r)
                    return 2
                ev.evaluate(t, r["res"], only=w.get("module"))
    print(f"replayed {w.get('module')} mode={w['mode']} flags={w['flags']} style={w['style']}")
    for k in sorted(set(ev.found)):
        print(("  REPRODUCED " if k == rep["key"] else "  also: ") + k)
    return 1 if rep["key"] in ev.found else 0
