"""C20 - any input produces diagnostics, never an internal failure.

Crash/timeout oracle over structure-aware mutants of the repository corpus, as batch runs (fixture
mode and real typeshed) and as successive edits handed to an in-process dmypy Server."""

from __future__ import annotations

import os
import re
from typing import Any, Iterator

from vlib import common, corpus, mutators
from vlib.pool import Pool

MSG_RE = re.compile(r"^(?:[^:\n]+?)(?::\d+){0,4}: (?:error|note|warning): ")
NONLOC_OK = re.compile(r"^(Found \d+ error|Success: |mypy: |usage: |Warning: |\s|$)")


def key_of(res: dict[str, Any]) -> str | None:
    if res.get("crash"):
        return "crash:" + res["crash"]["key"]
    if res.get("internal"):
        i = res["internal"][0]
        return f"internal:{i['exc']}@{i['file']}:{i['func']}"
    text = (res.get("out") or "") + (res.get("err") or "") + "\n".join(res.get("msgs") or [])
    if "INTERNAL ERROR" in text:
        return "internal:text"
    if "Traceback (most recent call last)" in text:
        return "traceback:" + __import__("vlib.inproc", fromlist=["x"]).classify_exc(text)
    if res.get("status") not in (0, 1, 2):
        return f"status:{res.get('status')}"
    return None


def malformed(res: dict[str, Any]) -> str | None:
    for ln in (res.get("msgs") or (res.get("out") or "").splitlines()):
        if not MSG_RE.match(ln) and not NONLOC_OK.match(ln):
            return ln
    return None


REPORT_FLAGS = ("--any-exprs-report", "--cobertura-xml-report", "--html-report", "--linecount-report",
                "--linecoverage-report", "--lineprecision-report", "--txt-report", "--xml-report",
                "--xslt-html-report", "--xslt-txt-report", "--junit-xml", "--memory-xml-report")
DROP_FLAGS = ("--config-file", "--cache", "--no-incremental", "--incremental", "-n", "--num-workers", "--pdb",
              "--install-types", "--non-interactive", "--sqlite-cache", "--no-sqlite-cache", "--skip",
              "--shadow-file", "--custom-typeshed-dir", "--custom-typing-module", "--python-executable",
              "--no-silence-site-packages", "--bazel", "--package-root", "--find-occurrences", "--junit-format",
              "--fixed-format-cache", "--no-fixed-format-cache", "--verbose", "-v", "--dump", "--stats", "--raise-exceptions",
              "--export-ref-info", "--timing-stats", "--line-checking-stats", "--native-parser", "--pretty", "-O", "--output",
              "--soft-error-limit")


def clean_flags(flags: list[str]) -> list[str]:
    """Drop flags that take files/dirs or change process behaviour; keep analysis-affecting ones."""
    out: list[str] = []
    skip = 0
    for i, f in enumerate(flags):
        if skip:
            skip -= 1
            continue
        if f in REPORT_FLAGS or f in ("--shadow-file", "--package-root", "--junit-xml", "--config-file", "--cache-dir",
                                      "--custom-typeshed-dir", "--custom-typing-module", "--python-executable",
                                      "--cache-map", "-n", "--num-workers", "--find-occurrences", "--junit-format", "-O", "--output"):
            skip = 2 if f == "--shadow-file" else 1
            continue
        if f.split("=")[0] in DROP_FLAGS or f.split("=")[0] in REPORT_FLAGS:
            continue
        out.append(f)
    return out


def gen_cases(ctx: common.Ctx, n_fix: int, n_ts: int) -> Iterator[dict[str, Any]]:
    cases = corpus.load(["check-*.test"])
    import random
    rng = random.Random("C20-core-order")   # core workload is seed-independent: known crashes are listed per mutant
    rng.shuffle(cases)
    texts = [c.main for c in cases[:400]]
    ts_cases = [c for c in cases if not corpus.uses_fixture_only_features(c) and not c.cmd and not corpus.has_config_files(c)]
    made = 0
    i = 0
    while made < n_ts and ts_cases and i < len(ts_cases) * 50:
        c = ts_cases[i % len(ts_cases)]
        i += 1
        r = random.Random(f"C20-core-ts-{c.id}-{i}")
        files = c.all_files()
        target = r.choice(sorted(k for k in files if k.endswith((".py", ".pyi"))) or ["main.py"])
        m = mutators.mutate(files[target], r, others=texts, n=1 if r.random() < 0.6 else 2)
        if m is None:
            continue
        files[target] = m[0]
        flags = clean_flags(c.flags)
        if r.random() < 0.2:
            flags = [*flags, "--pretty"]      # source-line rendering (message well-formedness is then not judged)
        if r.random() < 0.1:
            flags = [*flags, "--show-error-context", "--show-column-numbers", "--show-error-end"]
        made += 1
        yield {"fn": "vlib.tasks.basic:check_typeshed",
               "args": {"files": files, "flags": ["--show-traceback", *flags], "targets": ["main.py"]},
               "_case": c.id, "_ops": m[1], "_mode": "typeshed", "_idx": i, "_target": target}


def explore_cases(ctx: common.Ctx, n: int) -> Iterator[dict[str, Any]]:
    """VERIF_SEED-dependent slice: generated well-typed programs and their single-edit perturbations."""
    from vlib import typedgen
    for k in range(n):
        src, _ = typedgen.generate(("C20x", ctx.seed, k), n_funcs=3 + k % 3)
        r = common.rng_for("C20x", ctx.seed, k)
        ops = ["typedgen"]
        for _ in range(r.randint(0, 2)):
            m = typedgen.perturb(src, r)
            if m:
                src, op = m
                ops.append(op)
        yield {"fn": "vlib.tasks.basic:check_typeshed",
               "args": {"files": {"main.py": src}, "flags": ["--show-traceback", *r.choice([[], ["--strict"], ["--warn-unreachable"]])], "targets": ["main.py"]},
               "_case": f"typedgen{k}", "_ops": ops, "_mode": "typeshed", "_idx": k, "_target": "main.py", "_explore": True}


def daemon_cases(ctx: common.Ctx, n: int) -> Iterator[dict[str, Any]]:
    cases = [c for c in corpus.load(["check-*.test", "fine-grained.test"])
             if not corpus.uses_fixture_only_features(c) and not c.cmd and not corpus.has_config_files(c)]
    import random
    rng = random.Random("C20-core-daemon")
    rng.shuffle(cases)
    texts = [c.main for c in cases[:300]]
    for k in range(n):
        c = cases[k % len(cases)]
        r = random.Random(f"C20-core-dm-{c.id}-{k}")
        files = c.all_files()
        versions: list[dict[str, str]] = [dict(files)]
        cur = dict(files)
        ops: list[str] = []
        for _ in range(r.randint(2, 5)):
            target = r.choice(sorted(x for x in cur if x.endswith(".py")) or ["main.py"])
            m = mutators.mutate(cur[target], r, others=texts, n=1)
            if m is None:
                continue
            cur = dict(cur)
            cur[target] = m[0]
            ops += m[1]
            versions.append(cur)
        versions.append(dict(files))  # restore the original: the daemon must answer it like a full run
        flags = [f for f in c.flags if f.startswith(("--strict", "--disallow", "--warn", "--python-version",
                                                     "--no-implicit", "--check-untyped", "--local-partial",
                                                     "--enable-error-code", "--disable-error-code",
                                                     "--allow", "--implicit", "--extra-checks"))]
        yield {"fn": "vlib.tasks.daemon:run_history",
               "args": {"versions": versions, "flags": flags, "targets": ["main.py"], "oracle_last_only": True},
               "_case": c.id, "_ops": ops, "_mode": "daemon", "_idx": k}


def run(ctx: common.Ctx) -> None:
    quick = ctx.tier == "quick"
    n_fix, n_ts, n_dm = (0, 4000, 250) if quick else (0, 12000, 700)
    scale = float(os.environ.get("VERIF_SCALE", "1"))
    n_fix, n_ts, n_dm = int(n_fix * scale), int(n_ts * scale), int(n_dm * scale) * (0 if os.environ.get("VERIF_C20_NODAEMON") else 1)
    ctx.assumptions += ["core workload (corpus mutants, daemon edit sequences) is seed-independent so that the crashes already present in the tree are listed exactly; VERIF_SEED drives a slice of generated programs and perturbations"]
    ctx.rule = ("corpus program (check-*.test) x 1-2 structure-aware mutations (delete/dup/swap/move stmt, "
                "rename/cross-wire identifier, replace type expr, truncate, splice, make cyclic); non-trivial = "
                "mutant still parses with CPython's ast (reaches semantic analysis), distinct by source hash")
    ctx.assumptions += ["watchdog 120 s per run (20x the p99 of the workload); a timeout is re-run alone before it counts",
                        "trusted base: CPython, ast_serialize native parser"]
    ctx.floor_nontrivial = int((n_fix + n_ts) * 0.25)
    ctx.floor_evaluations = int((n_fix + n_ts) * 0.5)
    import ast
    timeouts: list[dict[str, Any]] = []
    with common.workdir("C20") as wd:
        env = common.base_env(VERIF_POOL_ROOT=wd)
        with Pool(env=env) as pool:
            def handle(t: dict[str, Any], r: dict[str, Any], rerun: bool = False) -> None:
                ctx.count()
                mode = t["_mode"]
                # content-based case id: stable under re-ordering / filtering of the workload
                body = t["args"].get("versions") or t["args"].get("files") or t["args"].get("main")
                cid = ("x:" if t.get("_explore") else "") + f"{t['_case']}:{common.fingerprint(body)[:10]}:{mode}"
                if r.get("timeout"):
                    if rerun:
                        ctx.violation(f"hang:{mode}", "did not terminate within the watchdog (re-run alone)",
                                      {"task": t}, case=cid)
                    else:
                        timeouts.append(t)
                    return
                if r.get("died"):
                    ctx.violation(f"worker-died:{mode}:rc={r.get('returncode')}",
                                  "interpreter process died while checking (signal / hard exit)", {"task": t}, case=cid)
                    return
                if not r.get("ok"):
                    ctx.violation(f"harness-exc:{mode}:{str(r.get('exc'))[:80]}", "exception escaped the runner",
                                  {"task": t, "tb": r.get("tb")}, case=cid)
                    return
                res = r["res"]
                if mode == "daemon":
                    handle_daemon(ctx, t, res, cid)
                    return
                src = t["args"].get("main") or t["args"]["files"].get(t.get("_target", "main.py"), "")
                try:
                    ast.parse(src)
                    parses = True
                except Exception:
                    parses = False
                phase = "parse-fail" if not parses else ("blocker" if res.get("status") == 2 else "checked")
                for op in t["_ops"]:
                    ctx.cell(f"{mode}:{op}:{phase}")
                if parses:
                    ctx.nontriv(src)
                k = key_of(res)
                if k:
                    ctx.violation(k, "internal failure instead of a diagnostic",
                                  {"task": t, "res": {kk: res.get(kk) for kk in ("status", "crash", "internal", "err")}}, case=cid)
                    return
                bad = malformed(res) if "--pretty" not in t["args"].get("flags", []) else None
                if bad is not None:
                    ctx.violation("malformed-message", f"ill-formed output line {bad!r}", {"task": t, "line": bad}, case=cid)
                    return
                if res.get("msgs") or res.get("out"):
                    ctx.sample({"case": t["_case"], "ops": t["_ops"], "mode": mode, "status": res.get("status"),
                                "first_msg": (res.get("msgs") or res.get("out", "").splitlines() or [""])[0][:160]})

            for t, r in pool.imap(gen_cases(ctx, n_fix, n_ts), timeout=120):
                handle(t, r)
            for t, r in pool.imap(explore_cases(ctx, max(20, n_ts // 10)), timeout=120):
                handle(t, r)
            for t, r in (pool.imap(daemon_cases(ctx, n_dm), timeout=300) if n_dm else []):
                handle(t, r)
        if timeouts:
            with Pool(n=1, env=env) as solo:
                for t, r in solo.imap(iter(timeouts), timeout=240):
                    ctx.evaluations -= 1
                    handle(t, r, rerun=True)
    ctx.extra["timeouts_rerun"] = len(timeouts)


def handle_daemon(ctx: common.Ctx, t: dict[str, Any], res: dict[str, Any], cid: str) -> None:
    ctx.cell("daemon:sequences")
    ctx.cell("daemon:steps", len(res.get("steps", [])))
    for st in res.get("steps", []):
        k = None
        if st.get("crash"):
            k = "daemon-crash:" + st["crash"]["key"]
        elif st.get("internal"):
            i = st["internal"][0]
            k = f"daemon-internal:{i['exc']}@{i['file']}:{i['func']}"
        elif "INTERNAL ERROR" in st.get("out", "") or "Traceback (most recent" in st.get("out", ""):
            from vlib import inproc
            k = "daemon-internal:" + inproc.classify_exc(st.get("out", ""))
        if k:
            ctx.violation(k, "daemon failed internally on an edit", {"task": t, "step": st}, case=cid)
            return
    last = res.get("final")
    if last and last.get("oracle") is not None:
        if not last["equal"]:
            from checks.c03 import classify_diff
            key = classify_diff(last)
            ctx.violation("daemon-after-bad-input:" + key,
                          "after hostile edits the daemon answers the restored program differently from a full run",
                          {"task": t, "daemon": last["daemon"], "oracle": last["oracle"]}, case=cid)
            return
        ctx.nontriv("daemon", t["_case"], tuple(t["_ops"]))
