"""C11 - cache serialization is faithful in both formats.

Read-after-write contract on the real build (vlib/tasks/c11_tasks.py): every module any build writes is
serialized with the repository's writers in both formats, read back with the repository's readers,
fixed up with the repository's fixer, and compared structurally (vlib/c11_walk.py: reflective walker,
cross references by fullname): live vs JSON reload, live vs binary reload (modulo the documented
projection), JSON reload vs binary reload (no exclusions), byte idempotence of re-serialization within
and across formats, two serializations of one tree, interface hash of the real write_cache vs the hash
of the contract's bytes; plus flag vectors over the classes' own flag tables on real nodes.

Workload: the import closure of builtins (cold, both formats), stdlib modules of the bundled typeshed,
multi-file programs of the repository corpus, histgen projects, and a generated package that makes the analyser produce
every node kind / flag / Type subclass reachable from source (vlib/c11_gen.py).
"""

from __future__ import annotations

import json
import os
import re
from typing import Any, Iterator

from vlib import c11_gen, common, corpus
from vlib.pool import Pool

TASK = "vlib.tasks.c11_tasks:build"
SEED_MOD = "import typing, collections, dataclasses, enum, abc, sys, os\n"


# ------------------------------------------------------------------------------------------------
# workload
# ------------------------------------------------------------------------------------------------
def stdlib_modules(pyver: tuple[int, int] = (3, 12)) -> list[str]:
    root = os.path.join(common.REPO, "mypy", "typeshed", "stdlib")
    versions: dict[str, tuple[tuple[int, int], tuple[int, int] | None]] = {}
    try:
        with open(os.path.join(root, "VERSIONS"), encoding="utf-8") as f:
            for ln in f:
                ln = ln.split("#")[0].strip()
                m = re.match(r"^([\w.]+): (\d+)\.(\d+)-(?:(\d+)\.(\d+))?$", ln)
                if m:
                    lo = (int(m.group(2)), int(m.group(3)))
                    hi = (int(m.group(4)), int(m.group(5))) if m.group(4) else None
                    versions[m.group(1)] = (lo, hi)
    except OSError:
        pass

    def ok(mod: str) -> bool:
        parts = mod.split(".")
        for i in range(len(parts), 0, -1):
            v = versions.get(".".join(parts[:i]))
            if v:
                return v[0] <= pyver and (v[1] is None or pyver <= v[1])
        return False

    mods: list[str] = []
    for dp, dn, fn in os.walk(root):
        dn.sort()
        for f in sorted(fn):
            if not f.endswith(".pyi"):
                continue
            rel = os.path.relpath(os.path.join(dp, f), root)[:-4].replace(os.sep, ".")
            if rel.endswith(".__init__"):
                rel = rel[: -len(".__init__")]
            if "@" in rel or not ok(rel):
                continue
            mods.append(rel)
    return sorted(mods)


def gen_tasks(ctx: common.Ctx, n_std: int | None, n_corpus: int, n_gen: int, flips: int, n_hist: int = 0) -> Iterator[dict[str, Any]]:
    # (A) builtins closure, cold, in each format (the longest tasks first)
    for ff in (True, False):
        yield {"fn": TASK, "args": {"files": {"verif_seed_mod.py": SEED_MOD}, "args": ["verif_seed_mod.py"], "cold": True,
                                    "ff": ff, "flips": flips, "scope": "all"},
               "_kind": "closure", "_name": f"builtins-closure:{'binary' if ff else 'json'}", "_timeout": 1500}
    # (D) generated flag-combination package, a few variants, each in both build formats and two option sets
    for v in range(n_gen):
        rng = common.rng_for("C11", "gen", v)
        files = c11_gen.package(v, rng)
        flags = [[], ["--strict"], ["--python-version", "3.13"], ["--disallow-any-generics", "--local-partial-types"],
                 ["--debug-cache"], ["--no-strict-optional", "--allow-redefinition"]][v % 6]
        yield {"fn": TASK, "args": {"files": files, "args": [*flags, "c11main.py", "c11pep695.py", "c11pkg", "c11stub.pyi", "c11bounds.py", "c11deep"],
                                    "cold": False, "ff": v % 2 == 0, "flips": flips, "scope": "user", "base_flags": flags},
               "_kind": "generated", "_name": f"generated:{v}"}
    # (E) histgen projects (3-7 modules, packages, stubs, cycles): first and last version of each history
    from vlib import histgen
    for k in range(n_hist):
        r = common.rng_for("C11", "hist", k)
        h = histgen.history(("C11", ctx.seed, k), n_steps=4, n_modules=r.randint(3, 7))
        for vi in (0, len(h["versions"]) - 1):
            yield {"fn": TASK, "args": {"files": h["versions"][vi], "args": ["main.py"], "cold": False, "ff": (k + vi) % 2 == 0,
                                        "flips": flips if k % 3 == 0 else 0, "scope": "user", "base_flags": []},
                   "_kind": "histgen", "_name": f"histgen:{k}:v{vi}"}
    for ff in (True, False):
        yield {"fn": TASK, "args": {"files": dict(c11_gen.SURROGATES), "args": ["c11sur.py"], "cold": False, "ff": ff, "flips": 0,
                                    "scope": "user", "base_flags": []},
               "_kind": "generated", "_name": f"generated:lone-surrogates:{'binary' if ff else 'json'}"}
    # (B) stdlib modules against a warm typeshed-only base cache (their dependencies come lazily from the cache)
    mods = stdlib_modules()
    rng = common.rng_for("C11", "stdlib")
    rng.shuffle(mods)
    if n_std is not None:
        mods = mods[:n_std]
    batch = 3
    for i in range(0, len(mods), batch):
        chunk = mods[i:i + batch]
        args = [a for m in chunk for a in ("-m", m)]
        yield {"fn": TASK, "args": {"files": None, "args": args, "cold": False, "ff": (i // batch) % 3 != 2, "flips": flips,
                                    "scope": "all"},
               "_kind": "stdlib", "_name": "stdlib:" + ",".join(chunk)}
    # (C) corpus programs (inputs only), multi-file ones first
    from checks.c20 import clean_flags
    cases = [c for c in corpus.load(["check-*.test"]) if not corpus.uses_fixture_only_features(c) and not c.cmd and c.main.strip()]
    rng = common.rng_for("C11", "corpus")
    rng.shuffle(cases)
    cases.sort(key=lambda c: (0 if c.suite in ("check-serialize.test", "check-incremental.test") else 1 if c.files else 2))
    for k, c in enumerate(cases[:n_corpus]):
        fl = semantic_flags(clean_flags(c.flags))
        yield {"fn": TASK, "args": {"files": c.all_files(), "args": [*fl, "main.py"], "cold": False, "ff": k % 2 == 0,
                                    "flips": flips if k % 4 == 0 else 0, "scope": "user", "base_flags": fl},
               "_kind": "corpus", "_name": c.id}


KEEP = ("--python-version", "--strict", "--disallow", "--no-implicit", "--implicit", "--local-partial", "--allow", "--no-strict",
        "--extra-checks", "--enable-incomplete-feature", "--no-namespace", "--namespace", "--warn-unreachable", "--always-true",
        "--always-false", "--platform", "--disable-bytearray", "--disable-memoryview", "--check-untyped", "--no-check-untyped")
TAKES_VALUE = ("--python-version", "--always-true", "--always-false", "--platform", "--enable-incomplete-feature")


def semantic_flags(src: list[str]) -> list[str]:
    """Flags that change what the analyser puts into symbol tables (the rest only multiplies base caches)."""
    out: list[str] = []
    i = 0
    while i < len(src):
        f = src[i]
        if f.startswith(KEEP):
            out.append(f)
            if f in TAKES_VALUE and i + 1 < len(src):
                out.append(src[i + 1])
                i += 1
        elif f in TAKES_VALUE:
            i += 1
        i += 1
    return out


# ------------------------------------------------------------------------------------------------
# classification of one module record
# ------------------------------------------------------------------------------------------------
def record_findings(rec: dict[str, Any]) -> list[tuple[str, str, dict[str, Any]]]:
    """[(mechanism key, description, detail)] for one module written under the contract."""
    out: list[tuple[str, str, dict[str, Any]]] = []
    for stage, r in (rec.get("raises") or {}).items():
        out.append((f"raises:{stage}:{r['key']}", f"the repository's own {stage.split(':')[0]} code raised on a module the build was writing",
                    {"stage": stage, "traceback": r["tb"]}))
    diffs = rec.get("diffs") or {}
    lj = (diffs.get("live-vs-json") or {}).get("by_key") or {}
    lb = (diffs.get("live-vs-binary") or {}).get("by_key") or {}
    jb = (diffs.get("json-vs-binary") or {}).get("by_key") or {}
    structural: set[str] = set()
    for k in sorted(set(lj) | set(lb)):
        where, what = k.split("|", 1)
        codecs = "both" if (k in lj and k in lb) else ("json" if k in lj else "binary")
        ent = lj.get(k) or lb.get(k) or {}
        structural.add(where)
        out.append((f"reload:{where}:{what}:{codecs}",
                    f"{where} of the reloaded module differs from the freshly analysed one ({what}; codec: {codecs})",
                    {"live-vs-json": lj.get(k), "live-vs-binary": lb.get(k), "json-vs-binary": jb.get(k), "n": ent.get("n")}))
    for k in sorted(jb):
        if k in lj or k in lb:
            continue
        where, what = k.split("|", 1)
        structural.add(where)
        out.append((f"formats-disagree:{where}:{what}", f"{where}: JSON reload and binary reload differ ({what})",
                    {"json-vs-binary": jb[k]}))
    for name, d in (rec.get("idem") or {}).items():
        where = None
        for p in d.get("json_paths") or []:
            where = p.get("where")
            if where:
                break
        if where and where in structural:
            continue   # same mechanism already reported structurally for this module
        out.append((f"bytes:{name}:{where or 'bytes-differ'}",
                    "re-serialization gives different bytes: the cache bytes are not a function of the interface", {"detail": d}))
    if rec.get("expect_hash") is not None and rec.get("got_hash") is not None and rec["expect_hash"] != rec["got_hash"]:
        out.append((f"interface-hash:two-serializations-differ:{rec.get('own')}",
                    "interface hash computed by write_cache differs from the hash of a second serialization of the same tree",
                    {"expect": rec["expect_hash"], "got": rec["got_hash"]}))
    seen: set[str] = set()
    for b in (rec.get("flips") or {}).get("bad", []):
        if b.get("struct") and b["flag"] in structural:
            continue   # same mechanism already reported by the module-level comparison
        key = f"flagvec:{b['cls']}.{b['flag']}:{b['pair']}" if not b.get("struct") else f"flagvec:{b['flag']}:json-vs-binary"
        if key in seen:
            continue
        seen.add(key)
        out.append((key, f"flag vector on a real {b['cls']}: {b['flag']} does not survive ({b['pair']})", {"detail": b}))
    return out


# ------------------------------------------------------------------------------------------------
def run(ctx: common.Ctx) -> None:
    quick = ctx.tier == "quick"
    scale = float(os.environ.get("VERIF_SCALE", "1"))
    n_std: int | None
    n_std, n_corpus, n_gen, flips = (90, 450, 4, 2) if quick else (None, 3000, 16, 4)
    n_hist = 40 if quick else 200
    if scale != 1:
        n_hist = max(2, int(n_hist * scale))
        n_std = max(3, int((n_std if n_std is not None else 800) * scale))
        n_corpus = max(4, int(min(n_corpus, 6000) * scale))
        n_gen = max(1, int(n_gen * scale))
    from vlib import c11_walk
    ctx.rule = ("one oracle evaluation = one comparison made for a module the real build writes (live vs JSON reload, live vs "
                "binary reload, JSON vs binary reload, 4 re-serializations, 2 repeat serializations, interface hash; plus one per "
                "flag vector). Non-trivial case = a written module in which >=1 symbol whose node is not a bare module reference "
                "was compared in all three pairings; distinct by (module id, sha1 of its binary bytes)")
    ctx.assumptions += [
        "the contract runs in a forked child of the process that runs the real build, at the moment State.write_cache is called "
        "(fully analysed tree, live module map); the reload is fixed up against the live map with the reload installed as modules[id]",
        "CPython and orjson/json are trusted base",
        "projection (attributes not compared live-vs-reload, with reasons): " + "; ".join(f"{k}: {v}" for k, v in sorted(c11_walk.PROJECTION.items())),
        "memo slots excluded in every pairing: " + "; ".join(f"{k}: {v}" for k, v in sorted(c11_walk.CACHES.items())),
        "normalisations: CallableType.definition Decorator ~ its FuncDef (all readers look through); Var.info/FuncDef.info absent in the "
        "fresh tree but set to the enclosing class by the fixer (nodes.set_info) is accepted in that direction only; "
        "TypeInfo.special_alias absent in the fresh tree but created by the fixer (update_tuple_type/update_typeddict_type) likewise; "
        "TypeInfo.metadata and ExtraAttrs.attrs compared as unordered mappings (both codecs sort their keys)",
        "in every pairing: " + c11_walk.TYPE_POSITIONS,
        "symbol tables compared as sets of names (iteration order of a module/class namespace is not compared live-vs-reload; it is "
        "compared JSON-vs-binary); names skipped by the serializer by documented rule: '__builtins__', no_serialize symbols",
    ]
    n_tasks = 0
    mods_seen = 0
    type_cells: set[str] = set()
    examples: dict[str, Any] = {}
    ctx.extra["examples_per_key"] = examples
    built: dict[tuple[str, str], dict[str, Any]] = {}   # (module id, path) -> bytes of its first build, for cross-build determinism
    with common.workdir("C11") as wd:
        env = common.base_env(VERIF_POOL_ROOT=wd)
        want_librt = os.environ.get("VERIF_C11_LIBRT", "installed" if quick else "repo")
        librt_dir = build_repo_librt(wd) if want_librt == "repo" else None
        if librt_dir:
            env["PYTHONPATH"] = librt_dir + os.pathsep + env["PYTHONPATH"]
            ctx.assumptions.append("librt.internal built from the repository's mypyc/lib-rt sources with the repository's recipe "
                                   "(mypyc.test.librt_cache) and put first on the workers' path")
        else:
            ctx.assumptions.append("librt.internal is the installed wheel (an edit of mypyc/lib-rt/internal/librt_internal.c is not seen"
                                   + ("; repository build failed, see extra.librt_build_error)" if want_librt == "repo" else " in this tier)"))
        ctx.extra["librt"] = librt_dir or "installed"
        with Pool(env=env, recycle_after=60) as pool:
            for t, r in pool.imap(gen_tasks(ctx, n_std, n_corpus, n_gen, flips, n_hist), timeout=600):
                n_tasks += 1
                kind = t["_kind"]
                if not r.get("ok"):
                    ctx.inconc(f"{kind}:runner:" + ("timeout" if r.get("timeout") else "died" if r.get("died") else str(r.get("exc"))[:80]))
                    continue
                res = r["res"]
                if res.get("crash") or res.get("internal"):
                    ctx.inconc(f"{kind}:mypy-internal-failure (owner: C20)")
                    ctx.extra.setdefault("foreign_incidents", []).append(
                        {"owner": "C20", "case": t["_name"], "witness": str((res.get("crash") or {}).get("key") or res.get("internal"))[:160]})
                recs = res.get("records") or []
                if not recs:
                    ctx.cell(f"{kind}:tasks-without-a-written-module")
                for rec in recs:
                    if rec.get("timeout"):
                        ctx.inconc(f"{kind}:contract-child-watchdog")
                        continue
                    if rec.get("child_signal"):
                        ctx.count()
                        ctx.violation(f"child-died:signal-{rec['child_signal']}",
                                      "the process running the repository's readers/writers on a module's own bytes was killed by a signal",
                                      {"task": strip(t), "module": rec.get("id")})
                        continue
                    if rec.get("harness_exc"):
                        ctx.inconc(f"{kind}:harness:" + str(rec["harness_exc"])[:80])
                        ctx.extra.setdefault("harness_errors", []).append({"module": rec.get("id"), "tb": rec.get("tb", "")[-1200:]})
                        continue
                    mods_seen += 1
                    fl = rec.get("flips") or {}
                    ctx.count(int(rec.get("checks", 0)) + (1 if rec.get("expect_hash") is not None else 0) + int(fl.get("evals", 0)))
                    ctx.cell(f"modules:{kind}")
                    ctx.cell("symbols_compared", int(rec.get("symbols", 0)))
                    ctx.cell("symbols_defined_here", int(rec.get("defined", 0)))
                    for c, n in (rec.get("cells") or {}).items():
                        ctx.cell(c, n)
                        if c.startswith("type:"):
                            type_cells.add(c[5:])
                    for c, n in (fl.get("cells") or {}).items():
                        ctx.cell(c, n)
                    full = len(rec.get("diffs") or {}) == 3
                    if rec.get("symbols", 0) > 0 and full:
                        ctx.nontriv(rec["id"], (rec.get("bytes") or {}).get("binary", {}).get("sha"))
                    if kind in ("stdlib", "closure") and rec.get("path") and os.path.isabs(str(rec["path"])):
                        # the same typeshed module written by two different builds (other process, other import order, other
                        # dependencies cached): equal interface => equal bytes
                        prev = built.setdefault((rec["id"], rec["path"]), {"bytes": rec.get("bytes"), "task": t["_name"],
                                                                           "build_format": rec.get("own")})
                        if prev["task"] != t["_name"]:
                            ctx.count()
                            ctx.cell("cross-build-byte-comparisons")
                            pa, pb = (prev["bytes"] or {}), (rec.get("bytes") or {})
                            differ = [fmt for fmt in ("binary", "json") if (pa.get(fmt) or {}).get("sha") and (pb.get(fmt) or {}).get("sha")
                                      and pa[fmt]["sha"] != pb[fmt]["sha"]]
                            if differ:
                                na, nb = (pa.get("json") or {}).get("sha_fresh_ids_renumbered"), (pb.get("json") or {}).get("sha_fresh_ids_renumbered")
                                why = "fresh-typevar-ids" if (na and nb and na == nb) else "other:" + "+".join(differ)
                                key = f"bytes:same-module-two-builds-differ:{why}"
                                wit = {"module": rec["id"], "path": rec["path"], "first": prev,
                                       "second": {"bytes": rec.get("bytes"), "task": t["_name"], "build_format": rec.get("own")},
                                       "task": strip(t), "formats_differing": differ}
                                examples.setdefault(key, wit)
                                ctx.violation(key, "two builds of the same typeshed module serialize to different bytes, so equal interfaces get "
                                              f"different interface hashes ({why}) [module {rec['id']}]", wit)
                    finds = record_findings(rec)
                    for key, what, detail in finds:
                        if key not in examples:
                            examples[key] = {"workload": t["_name"][:100], "module": rec["id"], "what": what,
                                             "detail": json.loads(json.dumps(detail, default=repr)[:3000] + "") if len(json.dumps(detail, default=repr)) <= 3000
                                             else json.dumps(detail, default=repr)[:3000]}
                        ctx.violation(key, f"{what} [module {rec['id']}]",
                                      {"task": strip(t), "module": rec["id"], "path": rec.get("path"), "key": key, **detail})
                    if not finds and rec.get("symbols", 0) > 20 and len(ctx.samples) < 6:
                        ctx.sample({"workload": t["_name"][:80], "module": rec["id"], "symbols_compared": rec["symbols"],
                                    "defined_here": rec["defined"], "binary_bytes": rec["bytes"].get("binary"),
                                    "json_bytes": rec["bytes"].get("json"), "interface_hash": rec.get("got_hash"),
                                    "flag_vectors": fl.get("evals", 0), "verdict": "all pairings equal, bytes idempotent"})
    ctx.extra["tasks"] = n_tasks
    ctx.extra["modules_under_contract"] = mods_seen
    ctx.extra["type_classes_seen"] = sorted(type_cells)
    ctx.extra["type_classes_never_seen"] = sorted(set(SERIALIZABLE_TYPES) - type_cells)
    # floors: ~30% of what the unchanged tree yields (quick: ~1600 modules / ~170k evaluations; thorough: ~10k / ~1.4M)
    if quick:
        ctx.floor_nontrivial = int(500 * min(1.0, scale))
        ctx.floor_evaluations = int(50000 * min(1.0, scale))
    else:
        ctx.floor_nontrivial = int(2000 * min(1.0, scale))
        ctx.floor_evaluations = int(250000 * min(1.0, scale))


def build_repo_librt(wd: str) -> str | None:
    """librt built from the working tree's mypyc/lib-rt with the repository's own recipe, outside the repository."""
    import subprocess
    code = ("import sys, mypyc.test.librt_cache as L\n"
            f"L.PREFIX = {wd!r}\n"
            "print('LIBRT_DIR=' + L.get_librt_path(opt_level='2'))\n")
    try:
        p = subprocess.run([common.PY, "-c", code], env=common.base_env(), capture_output=True, text=True, timeout=900,
                           cwd=wd, stdin=subprocess.DEVNULL)
    except Exception:
        return None
    for ln in p.stdout.splitlines():
        if ln.startswith("LIBRT_DIR="):
            d = ln.split("=", 1)[1]
            if os.path.isdir(os.path.join(d, "librt")):
                return d
    return None


# Type subclasses with a binary tag in mypy/types.py that may appear in a cache data file
SERIALIZABLE_TYPES = ["Instance", "AnyType", "TypeVarType", "CallableType", "NoneType", "UnionType", "LiteralType", "TypeAliasType",
                      "TupleType", "TypedDictType", "TypeType", "Overloaded", "ParamSpecType", "TypeVarTupleType", "UnpackType",
                      "Parameters", "UninhabitedType", "UnboundType", "DeletedType"]


def strip(t: dict[str, Any]) -> dict[str, Any]:
    return {"fn": t["fn"], "args": t["args"], "name": t.get("_name")}


def replay(ctx: common.Ctx, rep: dict[str, Any]) -> int:
    """Re-execute the build of one witness under the contract and say whether its key recurs."""
    w = rep["witness"]
    task = {"fn": w["task"]["fn"], "args": w["task"]["args"]}
    with common.workdir("C11r") as wd:
        with Pool(n=1, env=common.base_env(VERIF_POOL_ROOT=wd)) as pool:
            for _, r in pool.imap(iter([task]), timeout=1500):
                if not r.get("ok"):
                    print("replay inconclusive:", {k: v for k, v in r.items() if k != "tb"})
                    return 2
                keys = sorted({k for rec in r["res"]["records"] for k, _, _ in record_findings(rec)})
                print("keys observed on replay:", keys)
                if rep["key"] in keys:
                    print(f"VIOLATION property=C11 reproduced key={rep['key']}")
                    return 1
                return 0
    return 2
