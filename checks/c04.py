"""C04 - a killed run or failed cache write never makes later runs wrong.

Fault enumeration: a recording run logs every store operation (write/remove/commit) per process role; then, from
fresh copies of the same pre-state, the run is killed (os._exit(137), a faithful SIGKILL) after each operation
(and inside filesystem writes before the atomic replace), or subsets of its writes are made to fail; the
follow-up runs (warm, warm again, warm after a further edit) must equal cold runs."""

from __future__ import annotations

import os
from typing import Any, Iterator

from vlib import common, histgen
from vlib.pool import Pool
from checks.c03 import _codes


def gen(ctx: common.Ctx, n_scen: int, max_points: int, fail_mode: str, par_every: int) -> Iterator[dict[str, Any]]:
    for k in range(n_scen):
        r = common.rng_for("C04", "s", k)
        h = histgen.history(("C04", ctx.seed, k), n_steps=3, n_modules=r.randint(3, 5), ops=["sig", "sig", "extra", "rename_def", "delete_def", "kind_change", "add_use", "body_err", "add_def", "base_change"], double_p=0.7, revert_p=0)
        store = [["--sqlite-cache"], ["--no-sqlite-cache"]][k % 2]
        nw = 0 if (k + 1) % par_every else r.choice([2, 3])
        yield {"fn": "vlib.tasks.crash:scenario",
               "args": {"versions": h["versions"], "store_flags": store, "n_workers": nw, "targets": ["main.py"],
                        "max_points": max_points, "fail_mode": fail_mode, "key": ["C04", ctx.seed, k]},
               "_k": k, "_ops": h["ops"], "_store": store[0], "_nw": nw}


def mech(case: dict[str, Any], which: str) -> str:
    plan = case["plan"]
    diffs = case.get(which + "_diffs") or []
    miss = [x for d in diffs for x in d["only_b"]]
    extra = [x for d in diffs for x in d["only_a"]]
    direction = "stale-extra" if extra and not miss else "missing" if miss and not extra else "differs" if diffs else "status"
    if plan["kind"] == "kill":
        role = "worker" if plan["role"].startswith("worker") else plan["role"]
        point = f"kill:{role}:{plan['when']}-{plan.get('op', 'start')}-{plan.get('rec', '')}"
    else:
        role = "worker" if plan["role"].startswith("worker") else plan["role"]
        point = f"failed-writes:{role}:{'single' if len(plan['set']) == 1 else 'subset'}"
    return f"{point}|{which}|{direction}"


def run(ctx: common.Ctx) -> None:
    quick = ctx.tier == "quick"
    scale = float(os.environ.get("VERIF_SCALE", "1"))
    n_scen, max_points, fail_mode, par_every = (max(2, int(10 * scale)), 20, "singles", 5) if quick else (max(4, int(16 * scale)), 120, "all", 3)
    ctx.rule = ("scenario = histgen project checked (pre-state), edited, re-run with the fault; fault = kill after store op k / before op 1 / "
                "inside a filesystem write before os.replace, for every op of every process role (coordinator, each worker), or a "
                "set of failing writes; follow-ups: warm == cold, second warm == cold, warm after a further edit == cold; non-trivial = "
                "fault that left a mixed state (>=1 record rewritten, >=1 record the full run would rewrite still old); distinct by "
                "(role, op, record kind, store, state classes)")
    ctx.assumptions += ["logical clock for cache record mtimes (runs more than 1 s apart) and source mtimes", "os._exit(137) models SIGKILL (no commit, no atexit); torn writes inside sqlite/filesystem are outside the property",
                        "follow-up runs start only after the victim's whole process group is gone"]
    ctx.floor_nontrivial = max(2, n_scen)
    ctx.floor_evaluations = n_scen * 4
    classes: set[str] = set()
    points: set[tuple[Any, ...]] = set()
    with common.workdir("C04") as wd:
        env = common.base_env(VERIF_POOL_ROOT=wd)
        with Pool(env=env) as pool:
            for t, r in pool.imap(gen(ctx, n_scen, max_points, fail_mode, par_every), timeout=7200):
                if not r.get("ok"):
                    ctx.inconc("runner:" + ("timeout" if r.get("timeout") else "died" if r.get("died") else str(r.get("exc"))[:80]))
                    continue
                res = r["res"]
                if res.get("skipped"):
                    ctx.inconc(res["skipped"])
                    continue
                if res.get("recording_equal_cold") is False:
                    ctx.inconc("fault-free warm run already differs from cold (owner: C02)")
                    continue
                ctx.cell("scenarios")
                ctx.cell(f"store:{t['_store']}|workers:{t['_nw']}")
                for case in res["cases"]:
                    ctx.count()
                    plan = case["plan"]
                    role = "worker" if plan["role"].startswith("worker") else plan["role"]
                    pt = (plan["kind"], role, plan.get("when"), plan.get("op"), plan.get("rec"), t["_store"], len(plan.get("set", [])) > 1)
                    points.add(pt)
                    ctx.cell(f"{plan['kind']}:{role}:{plan.get('when', 'fail')}:{plan.get('op', 'write')}:{plan.get('rec', '')}")
                    for c in case["state_classes"]:
                        classes.add(c)
                    if case["mixed_state"]:
                        ctx.nontriv(pt, tuple(case["state_classes"]))
                    wit = {"task": t, "plan": plan, "cold1": res["cold1"], "cold2": res["cold2"], "state_classes": case["state_classes"]}
                    bad = False
                    if case.get("victim_equal_cold") is False:
                        # The property speaks about the NEXT run. What the faulty run itself prints is observed and
                        # reported (in parallel mode the cache is the workers' communication medium, so a failed
                        # write can make the faulty run itself wrong), but it is not a C04 verdict.
                        ctx.cell(f"observation:faulty-run-itself-differs-from-cold:{role}")
                    for which in ("follow1", "follow2", "follow3"):
                        if case.get(which + "_equal") is False:
                            ctx.violation(mech(case, which), f"{which} run after the fault differs from the cold run",
                                          {**wit, "out": case.get(which + "_out"), "diffs": case.get(which + "_diffs")})
                            bad = True
                    if not bad and case["mixed_state"]:
                        ctx.sample({"scenario": t["_k"], "store": t["_store"], "workers": t["_nw"], "plan": plan, "state": case["state_classes"]})
    ctx.extra["distinct_crash_points"] = len(points)
    ctx.extra["record_state_classes_observed"] = sorted(classes)
