"""C09 - changing options between runs never yields stale results.

The flag table is read from the live argparse parser (and PER_MODULE_OPTIONS for ini sections). For each option
the scenario run(a) -> run(b) -> run(a) -> run(b) is executed on ONE cache directory over witness projects, and
every warm run is compared with a cold run made with the same options."""

from __future__ import annotations

import os
from typing import Any, Iterator

from vlib import common
from vlib.pool import Pool
from vlib.tasks.incr import CONFIGS
from checks.c03 import _codes

LAYOUT_DESTS = {"namespace_packages", "explicit_package_bases", "exclude", "scripts_are_modules", "follow_imports",
                "ignore_missing_imports", "follow_untyped_imports", "no_site_packages", "no_silence_site_packages",
                "follow_imports_for_stubs", "exclude_gitignore", "implicit_reexport", "mypy_path"}


def classify(e: dict[str, Any]) -> str:
    if e.get("equal_mod_once"):
        return "only_once-note-placement"
    diffs = e.get("diffs") or []
    miss = [x for d in diffs for x in d["only_b"]]
    extra = [x for d in diffs for x in d["only_a"]]
    if not diffs:
        return "status-only"
    if miss and not extra:
        return "warm-missing"
    if extra and not miss:
        return "warm-stale-extra"
    if not miss and not extra:
        return "order-within-file"
    return "warm-differs"


def run(ctx: common.Ctx) -> None:
    quick = ctx.tier == "quick"
    ctx.rule = ("every action of the live argparse parser (option table enumerated at run time) x candidate values x witness "
                "projects; plus every boolean PER_MODULE option as a [mypy-<module>] ini section; scenario a,b,a,b on one cache "
                "dir; non-trivial = (option, variant, witness) whose two cold outputs differ; distinct by (dest, variant, witness)")
    ctx.assumptions += ["cold oracle = typeshed-only base cache built with the same options",
                        "options that cannot share a cache or only affect process behaviour are classified excluded:<reason> by rule (listed in evidence)",
                        "files are not edited between runs (source mtimes constant)"]
    cfgs = [CONFIGS["sqlite-bin"], CONFIGS["fs-json"]] if not quick else [CONFIGS["sqlite-bin"]]
    with common.workdir("C09") as wd:
        env = common.base_env(VERIF_POOL_ROOT=wd)
        with Pool(env=env) as pool:
            (_, r0), = pool.map([{"fn": "vlib.tasks.opts:enumerate_flags", "args": {}}], timeout=120)
            if not r0.get("ok"):
                raise RuntimeError(f"flag enumeration failed: {r0}")
            table = r0["res"]
            (_, r1), = pool.map([{"fn": "vlib.tasks.opts:per_module_bools", "args": {}}], timeout=120)
            pm = r1["res"] if r1.get("ok") else []
            ctx.extra["flag_table_size"] = len(table)
            ctx.extra["excluded"] = {f["opt"]: f["excluded"] for f in table if "excluded" in f}
            ctx.extra["uncovered_no_values"] = [f["opt"] for f in table if "uncovered" in f]

            def tasks() -> Iterator[dict[str, Any]]:
                for f in table:
                    for v in f.get("variants", []):
                        wl = [0] + ([1, 4] if f["dest"] in LAYOUT_DESTS else [] if quick else [4])
                        for w in wl:
                            for ci, cfg in enumerate(cfgs):
                                yield {"fn": "vlib.tasks.opts:toggle",
                                       "args": {"widx": w, "flags_a": [], "flags_b": v, "config": cfg,
                                                "true_cold": (not quick) and ci == 0 and w == 0},
                                       "_dest": f["dest"], "_opt": " ".join(v), "_w": w, "_key": f["in_cache_key"], "_form": "cli"}
                for name, default, section in pm:
                    if quick and section != "main":
                        continue
                    val = "False" if default else "True"
                    yield {"fn": "vlib.tasks.opts:toggle",
                           "args": {"widx": 0, "flags_a": [], "flags_b": [], "config": cfgs[0],
                                    "ini_a": "[mypy]\n", "ini_b": f"[mypy]\n[mypy-{section}]\n{name} = {val}\n"},
                           "_dest": name, "_opt": f"[mypy-{section}] {name}={val}", "_w": 0, "_key": True, "_form": "ini-section"}

            def extra_tasks() -> Iterator[dict[str, Any]]:
                cfg = cfgs[0]
                # (1) a value moves between two options (the key must distinguish WHICH option holds it)
                moves = [(["--always-true", "MY_FLAG"], ["--always-false", "MY_FLAG"]),
                         (["--enable-error-code", "truthy-bool"], ["--disable-error-code", "truthy-bool"]),
                         (["--enable-error-code", "redundant-expr"], ["--enable-error-code", "possibly-undefined"]),
                         (["--disable-error-code", "assignment"], ["--disable-error-code", "operator"]),
                         (["--always-true", "MY_FLAG", "--always-false", "OTHER"], ["--always-true", "OTHER", "--always-false", "MY_FLAG"]),
                         (["--python-version", "3.10"], ["--python-version", "3.14"]), (["--platform", "win32"], ["--platform", "darwin"]),
                         (["--follow-imports", "skip"], ["--follow-imports", "silent"]), (["--follow-imports", "error"], ["--follow-imports", "skip"])]
                for a, b in moves:
                    yield {"fn": "vlib.tasks.opts:toggle", "args": {"widx": 0, "flags_a": a, "flags_b": b, "config": cfg},
                           "_dest": "move:" + a[0].lstrip("-") + "->" + b[0].lstrip("-"), "_opt": " ".join(a) + " => " + " ".join(b), "_w": 0, "_key": True, "_form": "move"}
                # (2) two boolean options of the live table swapped (seeded sample)
                bools = [f for f in table if f.get("variants") and f["boolean"]]
                r = common.rng_for("C09", "pairs", ctx.seed)
                for _ in range(12 if quick else 40):
                    fa, fb = r.sample(bools, 2)
                    yield {"fn": "vlib.tasks.opts:toggle", "args": {"widx": 0, "flags_a": fa["variants"][0], "flags_b": fb["variants"][0], "config": cfg},
                           "_dest": f"pair:{fa['dest']}+{fb['dest']}", "_opt": f"{fa['opt']} => {fb['opt']}", "_w": 0, "_key": True, "_form": "pair"}
                # (3) import-resolution matrix: global vs per-module ignore_missing_imports x follow_imports, while a search-path
                #     option makes module b appear / disappear between the runs
                files = {"main.py": "import b\nx: int = b.v\n", "extra/b.py": "v: str = 's'\nbad: int = ''\n", "other.py": "import main\n"}
                for g in ("True", "False"):
                    for pm in (None, "True", "False"):
                        for fol in ("normal", "skip", "error", "silent"):
                            for pmfol in (None, "skip"):
                                sec = "[mypy-b]\n" + (f"ignore_missing_imports = {pm}\n" if pm else "") + (f"follow_imports = {pmfol}\n" if pmfol else "")
                                head = f"[mypy]\nignore_missing_imports = {g}\nfollow_imports = {fol}\n"
                                ini_with = head + "mypy_path = extra\n" + (sec if (pm or pmfol) else "")
                                ini_without = head + (sec if (pm or pmfol) else "")
                                for a_, b_, d_ in ((ini_with, ini_without, "found->missing"), (ini_without, ini_with, "missing->found")):
                                    yield {"fn": "vlib.tasks.opts:toggle",
                                           "args": {"widx": 0, "flags_a": [], "flags_b": [], "config": cfg, "ini_a": a_, "ini_b": b_, "files": files, "targets": ["main.py"]},
                                           "_dest": f"import-matrix:imi={g}/{pm}:follow={fol}/{pmfol}", "_opt": f"mypy_path {d_} (global imi={g}, [mypy-b] imi={pm}, follow={fol}, [mypy-b] follow={pmfol})",
                                           "_w": "imp", "_key": True, "_form": "import-matrix"}

            witnessed: set[str] = set()
            tried: set[str] = set()
            import itertools
            for t, r in pool.imap(itertools.chain(tasks(), extra_tasks()), timeout=900):
                dest = t["_dest"]
                tried.add(dest)
                if not r.get("ok"):
                    ctx.inconc("runner:" + ("timeout" if r.get("timeout") else "died" if r.get("died") else str(r.get("exc"))[:80]))
                    continue
                res = r["res"]
                if res.get("failed"):
                    ctx.inconc("internal-failure (owner: C20)")
                    continue
                if res.get("usage_error"):
                    ctx.inconc("usage-error:" + t["_opt"])
                    continue
                if not res["differs_cold"]:
                    ctx.cell("no-witness-on-this-project")
                    continue
                witnessed.add(dest)
                ctx.nontriv(dest, t["_opt"], t["_w"], t["_form"])
                ctx.cell("in_cache_key" if t["_key"] else "not_in_cache_key")
                for i, e in enumerate(res["runs"]):
                    ctx.count()
                    if e["failed"]:
                        ctx.inconc("internal-failure (owner: C20)")
                        break
                    if e["equal"]:
                        continue
                    direction = "off->on" if e["opts"] == "b" else "on->off"
                    cls = classify(e)
                    key = "only_once-note-placement" if cls == "only_once-note-placement" else f"option={dest}:stale-after-toggle"
                    ctx.violation(key, f"{t['_opt']} ({t['_form']}) {direction} run #{i}: {cls}",
                                  {"task": t, "run": i, "direction": direction, "warm": e["out"], "cold": res["cold_" + e["opts"]]["out"],
                                   "diffs": e.get("diffs"), "flags": res["flags_" + e["opts"]]})
                    break
                else:
                    ctx.sample({"option": t["_opt"], "form": t["_form"], "witness": t["_w"], "in_cache_key": t["_key"],
                                "cold_a_lines": len(res["cold_a"]["out"].splitlines()), "cold_b_lines": len(res["cold_b"]["out"].splitlines())})
            ctx.extra["options_with_witness"] = sorted(witnessed)
            ctx.extra["options_without_witness (cannot refute or support)"] = sorted(tried - witnessed)
    ctx.floor_nontrivial = 40
    ctx.floor_evaluations = 150
    ctx.exhaustive = False
    ctx.extra["exhaustive_over_option_dimension"] = True
