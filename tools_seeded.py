#!/venv/bin/python
"""Evaluate a seeded change against a check without touching /repo: the patch is applied inside the adversary's own
scratch worktree and the check is pointed at it with VERIF_REPO.

  tools_seeded.py eval <worktree> <patchdir> <PID> [--tier quick] [--seed N]
"""
import os, subprocess, sys, json, re

def main():
    wt, pdir, pid = sys.argv[2:5]
    tier = sys.argv[sys.argv.index("--tier") + 1] if "--tier" in sys.argv else "quick"
    seed = sys.argv[sys.argv.index("--seed") + 1] if "--seed" in sys.argv else "0"
    subprocess.run(["git", "-C", wt, "checkout", "-q", "--", "."], check=True)
    subprocess.run(["git", "-C", wt, "apply", os.path.join(pdir, "patch.diff")], check=True)
    try:
        env = dict(os.environ, VERIF_REPO=wt, VERIF_SEED=seed, VERIF_MAX_REPORT="6")
        p = subprocess.run(["/venv/bin/python", "check.py", pid, "--tier", tier], cwd=os.path.dirname(os.path.abspath(__file__)),
                           env=env, capture_output=True, text=True)
        keys = re.findall(r"^\s+key=(.*?) ::", p.stdout, re.M)
        last = [l for l in p.stdout.splitlines() if l.startswith("[" + pid)]
        print(json.dumps({"pid": pid, "patch": pdir, "rc": p.returncode, "violation_keys": sorted(set(keys))[:12], "summary": last[-1:] }, indent=1))
        if p.returncode not in (0, 1):
            print(p.stdout[-1500:], p.stderr[-1500:])
    finally:
        subprocess.run(["git", "-C", wt, "checkout", "-q", "--", "."], check=True)

if __name__ == "__main__":
    main()
