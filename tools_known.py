#!/venv/bin/python
"""Offline maintenance of known_findings.json (never run by a registered check).

  tools_known.py import-agent-keys      merge the key files written by the builder agents (findings/CXX/*.json)
  tools_known.py from-collect <file> [--cases] [--property CXX]
        add OPEN entries for the unlisted violations recorded by `VERIF_COLLECT=<file> ./check.py ...`
        (--cases: list the failing case ids per key so that the same mechanism on another input is still reported)
"""
import json, os, sys, collections
HERE = os.path.dirname(os.path.abspath(__file__))
P = os.path.join(HERE, "known_findings.json")


def load():
    return json.load(open(P))


def save(d):
    d["findings"].sort(key=lambda e: (e["property"], e.get("status", ""), e["key"]))
    json.dump(d, open(P, "w"), indent=1)
    open(P, "a").write("\n")


def upsert(d, e):
    for x in d["findings"]:
        if x["property"] == e["property"] and x["key"] == e["key"]:
            if x.get("status") == "fixed":
                return
            if "cases" in e and x.get("cases") is not None:
                x["cases"] = sorted(set(x["cases"]) | set(e["cases"]))
            elif "cases" not in e:
                x.pop("cases", None)
            for k in ("what_fails", "repro"):
                if k in e and k not in x:
                    x[k] = e[k]
            return
    d["findings"].append(e)


def main():
    d = load()
    cmd = sys.argv[1]
    if cmd == "import-agent-keys":
        fixed = json.load(open(os.path.join(HERE, "findings", "FIXED.json")))  # {property: {defect-or-key-substring: commit}}
        a = json.load(open(os.path.join(HERE, "findings/C08/known_keys.json")))
        for f in a["findings"]:
            for k in f["keys"]:
                upsert(d, {"property": "C08", "key": k, "status": "open", "what_fails": f["what_fails"], "repro": f["repro"]})
        b = json.load(open(os.path.join(HERE, "findings/C19/KEYS.json")))
        for f in b:
            upsert(d, {"property": "C19", "key": f["key"], "status": "open", "what_fails": f"[{f['defect']}] " + f["what_fails"], "repro": f.get("repro")})
    elif cmd == "from-collect":
        path = sys.argv[2]
        with_cases = "--cases" in sys.argv
        prop = sys.argv[sys.argv.index("--property") + 1] if "--property" in sys.argv else None
        by = collections.defaultdict(lambda: {"cases": set(), "what": ""})
        for l in open(path):
            r = json.loads(l)
            if r.get("known") or (prop and r["property"] != prop):
                continue
            e = by[(r["property"], r["key"])]
            e["what"] = e["what"] or r["what"]
            if r.get("case"):
                e["cases"].add(r["case"])
        for (pid, key), e in sorted(by.items()):
            ent = {"property": pid, "key": key, "status": "open", "what_fails": e["what"]}
            if with_cases and e["cases"]:
                ent["cases"] = sorted(e["cases"])
            upsert(d, ent)
            print("added/merged", pid, key, len(e["cases"]))
    save(d)


if __name__ == "__main__":
    main()
