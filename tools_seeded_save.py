#!/venv/bin/python
"""tools_seeded_save.py <worktree> <A|B> <id> <PID> '<needs>' '<tests cmd>' : copy a confirmed seeded change into /verif/seeded/<id>/"""
import json, os, shutil, sys
wt, x, sid, pid, needs, tests = sys.argv[1:7]
src = os.path.join(wt, "_seeded", x)
dst = os.path.join("/verif/seeded", sid)
os.makedirs(dst, exist_ok=True)
for f in os.listdir(src):
    shutil.copy(os.path.join(src, f), os.path.join(dst, f))
meta = {"id": sid, "property": pid, "needs_to_manifest": needs, "source": "independent adversary sub-agent (given only the property text and a scratch worktree)",
        "confirmed": {"demo_exit_on_patched_tree": 1, "demo_exit_on_clean_tree": 0, "existing_tests_run": tests},
        "caught_by": None}
json.dump(meta, open(os.path.join(dst, "meta.json"), "w"), indent=1)
print("saved", dst, os.listdir(dst))
